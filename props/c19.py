"""C19 - extensions (hooks, auth providers) apply exactly where their OWN filters say.

E5: explicit-state breadth-first enumeration of REGISTRATION HISTORIES on the real dispatchers / auth storages.
A state is the history that reaches it; ``run_history`` builds a fresh real schema, resets the process globals, replays the
real registration calls (decorator forms exactly as a user writes them) and then observes

  (1) the filter stored on every registered hook function (``hook.filter_set``),
  (2) which hooks really ran for each of the three operations when ONE case per operation is generated from the real
      ``operation.as_strategy(hooks=<test dispatcher>, auth_storage=<test storage>)`` along E1's default (all-zero) path,
      and for ``before_add_examples`` through the real ``add_examples``,
  (3) which hook functions are still present in their dispatcher after ``unregister`` / ``unregister_all``,
  (4) which auth provider authenticated the case.

The reference model is a plain list of (extension, scope, the filter given at ITS OWN registration).  It never calls
FilterSet / HookDispatcher / AuthStorage to compute an expectation.
"""

from __future__ import annotations

import re
from typing import Any, Callable

from mc import c19_extra
from mc.choicetree import Alphabet, draw_strategy, replay
from mc.runner import Result, digest
from props import common

ID = "C19"
LEVEL = "model_checking"
ENGINES = ["E5", "E1"]
RULE = (
    "state = registration history (sequence of real (un)registration calls from the stated alphabet, depth <= D) executed on a fresh "
    "schema with process globals reset; every history of the bounded tree is executed (BFS, no sampling) and judged for each of the "
    "operations GET /a (tags [x], operationId getA), POST /a (tags [x, y], operationId postA), GET /b (neither); families: hooks / auth / "
    "mixed over the quick alphabet, and (mc/c19_extra.py) terms = every documented filter condition on hooks and providers, kinds = every "
    "verb x container hook kind with a filter, identity = one function under two names / on two scopes / unregistered on the wrong scope / "
    "an unknown function unregistered, derived_* = observed through schema.include()/exclude(); a history is non-trivial when at least one live extension carries a filter of its own or an "
    "unregistration removed something; distinct = distinct canonical observations (stored filters, applied sets, auth per operation)"
)
BOUNDS = {
    "quick": {"depth_hooks": 3, "depth_auth": 3, "depth_mixed": 2, "alphabet": "quick", "operations": 3, "cases_per_operation": 1,
              "depth_terms": 2, "depth_kinds": 2, "depth_identity": 3, "depth_derived": 2},
    "thorough": {"depth_hooks": 4, "depth_hooks_wide": 2, "depth_auth": 4, "depth_mixed": 3, "alphabet": "quick (deep) + wide (depth 2)",
                 "operations": 3, "cases_per_operation": 1,
                 "depth_terms": 2, "depth_kinds": 2, "depth_identity": 3, "depth_derived": 2},
}
BUDGET_S = {"quick": 140, "thorough": 3000}
CHUNK = 4
ASSUMPTIONS = [
    "each registration uses a fresh function / provider class, except the actions rehook / rereg / alias / twin, which register the function of "
    "an earlier hook again - always with the same filters as the live registration of that function (two live registrations of one function "
    "with DIFFERENT filters are never built: the text does not say which filter holds)",
    "filter conditions are judged with the semantics of docs/extending.rst and docs/auth.rst only: AND within a term, OR between terms, "
    "skip_for excludes; an operation without tags / operationId satisfies no tag / operation_id condition; regexes are unanchored "
    "(`search`); method values are compared case-insensitively, method regexes are only given in upper case",
    "derived schemas (schema.include / schema.exclude) are created after the whole history, so that every registration on the parent belongs "
    "to the derived schema's scope; registrations made on the parent after deriving are not enumerated",
    "order of application is judged only between two live hooks of the same kind (global, then schema, then test; order of definition "
    "within one scope), as docs/extending.rst states it",
    "unregister(<function never registered>) is documented neither as an error nor as a no-op: if it raises, the case is counted as "
    "undecided; when it returns, no registered hook may have disappeared",
    "one generated case per operation along the all-zero choice path; hooks always accept (filter hooks return True), so whether a hook ran does not depend on drawn data",
    "process globals are reset per history with the test-suite's own functions (schemathesis.hooks.unregister_all, schemathesis.auth.unregister); "
    "the registration closure behind schemathesis.hook has no reset function, so it is re-created with the library's own constructor "
    "(hooks.to_filterable_hook) - equal to a fresh interpreter; two sentinel histories run at the end of every work item must give one "
    "single observation over the whole run, else the check reports itself broken",
    "auth: only safety (a provider never authenticates an operation outside its own filter, an unregistered provider never authenticates) and "
    "the unshadowed case (the highest-priority scope that has providers, per auths.set_on_case: test > schema > global, has one whose own "
    "filter matches) are judged; a matching provider shadowed by a non-matching higher scope is counted as undecided",
    "body hooks are judged only on POST /a (the only operation with a body)",
]

OPS = [["GET", "/a"], ["POST", "/a"], ["GET", "/b"]]
# family `graphql` (docs/extending.rst "GraphQL hooks"; condition `name`: "such as ``GET /users/`` or ``Query.getUsers``")
GQL_SDL = "type Query { getBooks(n: Int!): Int  getAuthors(n: Int!): Int }  type Mutation { addBook(n: Int!): Int }"
GQL_OPS = [["Query", "getBooks"], ["Query", "getAuthors"], ["Mutation", "addBook"]]


def is_gql(op: list) -> bool:
    return op[0] in ("Query", "Mutation")


def op_key(op: list) -> str:
    """The operation's documented name."""
    return f"{op[0]}.{op[1]}" if is_gql(op) else f"{op[0]} {op[1]}"


def ops_of(spec: str) -> list:
    return GQL_OPS if spec == "graphql" else OPS
_Q = [{"name": "q", "in": "query", "required": True, "schema": {"type": "integer"}}]
_R = {"200": {"description": "ok"}}
DOC = {
    "openapi": "3.0.2",
    "info": {"title": "c19", "version": "1"},
    "paths": {
        "/a": {
            "get": {"tags": ["x"], "operationId": "getA", "parameters": _Q, "responses": _R},
            "post": {
                "tags": ["x", "y"],
                "operationId": "postA",
                "parameters": _Q,
                "requestBody": {"required": True, "content": {"application/json": {"schema": {"type": "integer"}}}},
                "responses": _R,
            },
        },
        # no tags, no operationId: a `tag` / `operation_id` condition never holds here
        "/b": {"get": {"parameters": _Q, "responses": _R}},
    },
}
ALPHA = Alphabet()

# ---------------------------------------------------------------------------------------------------------------------
# alphabet
# ---------------------------------------------------------------------------------------------------------------------

GET = {"method": "GET"}
POST = {"method": "POST"}
PA = {"path": "/a"}
PB = {"path": "/b"}
NB = {"name": "GET /b"}
RXA = {"path_regex": "^/a$"}
MLIST = {"method": ["POST", "PUT"]}


def ap(kw: dict) -> list:
    return ["apply", kw]


def sk(kw: dict) -> list:
    return ["skip", kw]


def H(scope: str, form: str, kind: str, *filt: list) -> dict:
    return {"t": "hook", "scope": scope, "form": form, "kind": kind, "filter": list(filt)}


def AU(scope: str, *filt: list, via: str = "class", cache: bool = True) -> dict:
    return {"t": "auth", "scope": scope, "filter": list(filt), "via": via, "cache": cache}


# "rehook": the same function object of hook #0 is registered once more under the same hook name on its dispatcher
# (e.g. an `install()` helper called twice); `unregister(fn)` must then remove every registration of that function
# "rereg": the function object of hook #0, after it was unregistered, is registered again through a decorator (by name, or
# by its function name) with the filters given THIS time - what it was given the first time is gone with the unregistration
UNREG = [{"t": "unreg", "i": 0}, {"t": "unreg", "i": 1}, {"t": "unreg_all", "scope": "G"}, {"t": "unreg_all", "scope": "S"},
         {"t": "rehook", "i": 0},
         {"t": "rereg", "i": 0, "form": "str", "filter": []}, {"t": "rereg", "i": 0, "form": "fn", "filter": []},
         {"t": "rereg", "i": 0, "form": "str", "filter": [["apply", {"path": "/b"}]]}]

# forms:  fn          @d.hook / @d.hook.apply_to(..)            (name taken from the function name)
#         str         @d.hook("name") / @d.hook.apply_to(..)("name")   (filters first, then the name)
#         str_filter  @d.hook("name").apply_to(..)              (name first, then filters - the form used in test/hooks/test_filters.py)
#         apply       @schema.hooks.apply(fn)                   (test scope, name from the function)
#         apply_name  @schema.hooks.apply(fn, name="...")       (test scope)
# scopes: G = schemathesis.hook, S = schema.hook, S2 = schema.hooks.register (second entry point of the schema dispatcher), T = test
HOOKS_QUICK = [
    # schema.hook: forms x filters on one observable kind
    H("S", "fn", "map_query"),
    H("S", "fn", "map_query", ap(GET)),
    H("S", "fn", "map_query", sk(PA)),
    H("S", "fn", "map_query", ap(GET), sk(PA)),
    H("S", "str", "map_query"),
    H("S", "str", "map_query", ap(PA)),
    H("S", "str_filter", "map_query", ap(PA)),
    # schema.hook: kinds
    H("S", "fn", "before_generate_query", ap(PA)),
    H("S", "fn", "filter_query", sk(GET)),
    H("S", "fn", "flatmap_query"),
    H("S", "fn", "before_generate_headers", ap(POST)),
    H("S", "fn", "filter_body", ap(PA)),
    H("S", "fn", "map_case", ap(PB)),
    H("S", "fn", "before_add_examples", ap(GET)),
    # documented rejection (ValueError: filters are not applicable to this hook) - must leave nothing behind for the next registration
    H("S", "fn", "before_process_path", ap(GET)),
    # schemathesis.hook
    H("G", "fn", "map_query"),
    H("G", "fn", "map_query", ap(PB)),
    H("G", "str", "filter_query", sk(PB)),
    H("G", "fn", "before_generate_headers"),
    H("G", "fn", "before_add_examples", sk(POST)),
    # schema.hooks.register
    H("S2", "fn", "map_query", ap(POST)),
    # test scope
    H("T", "apply", "map_query"),
    H("T", "apply_name", "before_generate_headers"),
    H("T", "apply", "filter_body"),
    *UNREG,
]

AUTH_QUICK = [
    AU("G"),
    AU("G", ap(GET)),
    AU("G", sk(PA)),
    AU("G", ap(PA), sk(POST)),
    AU("G", ap(PB), via="requests"),
    AU("S"),
    AU("S", ap(PA)),
    AU("S", sk(GET)),
    AU("S", ap(PB), cache=False),
    AU("T"),
    AU("T", ap(GET)),
    AU("T", ap(PA), sk(GET)),
    {"t": "auth_unreg", "scope": "G"},
    {"t": "auth_unreg", "scope": "S"},
]


def _hooks_wide() -> list[dict]:
    out: list[dict] = []
    filters = [[], [ap(GET)], [ap(PA)], [sk(GET)], [sk(PB)], [ap(GET), sk(PA)], [ap(PB), ap(POST)], [ap(NB)], [ap(RXA)], [sk(MLIST)]]
    for scope in ("S", "G"):
        for kind in ("map_query", "filter_query"):
            for filt in filters:
                out.append(H(scope, "fn", kind, *filt))
                out.append(H(scope, "str", kind, *filt))
                if filt:
                    out.append(H(scope, "str_filter", kind, *filt))
    for scope in ("S", "G", "S2"):
        for kind in ("before_generate_query", "flatmap_query", "before_generate_headers", "map_headers", "filter_body", "map_case",
                     "filter_case", "flatmap_case", "before_generate_case", "before_add_examples"):
            out.append(H(scope, "fn", kind))
            out.append(H(scope, "fn", kind, ap(PA)))
    out += [H("S", "fn", "before_process_path", ap(GET)), H("G", "fn", "before_process_path", sk(PB)),
            H("S", "str_filter", "before_process_path", ap(GET)), H("G", "str", "before_process_path", ap(PA))]
    for kind in ("map_query", "before_generate_headers", "filter_body", "map_case", "before_add_examples"):
        out.append(H("T", "apply", kind))
        out.append(H("T", "apply_name", kind))
    seen = set()
    uniq = []
    for a in out:
        k = digest(a)
        if k not in seen:
            seen.add(k)
            uniq.append(a)
    return uniq + UNREG


def alphabet(name: str) -> list[dict]:
    if name == "hooks":
        return HOOKS_QUICK
    if name == "auth":
        return AUTH_QUICK
    if name == "mixed":
        return HOOKS_QUICK + AUTH_QUICK
    if name == "hooks_wide":
        return _hooks_wide()
    if name in c19_extra.FAMILIES:
        return _extra_alphabet(name)
    raise KeyError(name)


_EXTRA_CACHE: dict[str, list[dict]] = {}


def _extra_alphabet(name: str) -> list[dict]:
    if name not in _EXTRA_CACHE:
        _EXTRA_CACHE[name] = c19_extra.FAMILIES[name][0]()
    return _EXTRA_CACHE[name]


def view_of(fam: str) -> str | None:
    """Families `derived_*` observe the history through a schema derived from the one the extensions were registered on."""
    return fam.split("_", 1)[1] if fam.startswith("derived_") else None


def enabled(prefix: list[dict], action: dict) -> bool:
    if action["t"] == "rereg":
        return any(a["t"] in ("unreg", "unreg_all") for a in prefix)
    if action["t"] in ("unreg", "alias", "twin", "unreg_other_scope"):
        # the target is the i-th hook registration that is not rejected as documented (`alias` / `twin` add a registration)
        return sum(1 for a in prefix if a["t"] in ("alias", "twin")
                   or (a["t"] == "hook" and not (a["kind"] == "before_process_path" and a["filter"]))) > action["i"]
    return True


def items(tier: str, seed: int) -> list[dict]:
    b = BOUNDS[tier]
    out: list[dict] = []

    def family(fam: str, depth: int) -> None:
        n = len(alphabet(fam))
        split = 1 if depth <= 2 else 2
        first = True
        for i in range(n):
            if not enabled([], alphabet(fam)[i]):
                continue
            if split == 1:
                out.append({"fam": fam, "prefix": [i], "depth": depth, "root": first})
                first = False
                continue
            # the 1-prefix itself
            out.append({"fam": fam, "prefix": [i], "depth": 1, "root": first})
            first = False
            for j in range(n):
                if enabled([alphabet(fam)[i]], alphabet(fam)[j]):
                    out.append({"fam": fam, "prefix": [i, j], "depth": depth, "root": False})

    family("auth", b["depth_auth"])
    family("hooks", b["depth_hooks"])
    family("mixed", b["depth_mixed"])
    # review round 2 (mc/c19_extra.py): cheap enough for both tiers
    for fam, (_, depth) in c19_extra.FAMILIES.items():
        family(fam, depth)
    if tier == "thorough":
        family("hooks_wide", b["depth_hooks_wide"])
    out.sort(key=lambda it: (len(it["prefix"]), it["depth"]))
    return out


# ---------------------------------------------------------------------------------------------------------------------
# reference model (independent of schemathesis.filters)
# ---------------------------------------------------------------------------------------------------------------------


def _as_list(v: Any) -> list:
    return v if isinstance(v, list) else [v]


# custom matcher functions (docs/auth.rst: "pass it as the first argument", the function gets a context with `.operation`):
# name -> (the function given to schemathesis, the same predicate on the model's [method, path])
def _is_b(ctx: Any) -> bool:
    return ctx.operation.path == "/b"


def _is_mutation(ctx: Any) -> bool:
    return ctx.operation.label.startswith("Mutation.")


def _is_post(ctx: Any) -> bool:
    return ctx.operation.method.upper() == "POST"


_is_b.__name__ = "is_b"
_is_post.__name__ = "is_post"
_is_mutation.__name__ = "is_mutation"
PREDICATES: dict[str, tuple[Callable, Callable]] = {
    "is_b": (_is_b, lambda method, path: path == "/b"),
    "is_post": (_is_post, lambda method, path: method.upper() == "POST"),
    "is_mutation": (_is_mutation, lambda root, field: root == "Mutation"),
}


def op_attributes(op: list) -> dict:
    """What the documentation's conditions refer to, read from the document itself (tags / operationId may be absent)."""
    method, path = op
    if is_gql(op):
        # a GraphQL field has a name only; "tag ... For Open API it comes from the ``tags`` field", "operation_id ... For Open API it comes
        # from the ``operationId`` field" - nothing of the kind exists here (the alphabet uses values no GraphQL name can take); the
        # documentation says nothing about method / path of a GraphQL operation: never used on this family
        return {"name": [op_key(op)], "tag": [], "operation_id": []}
    definition = DOC["paths"][path][method.lower()]
    attrs = {"method": [method.upper()], "path": [path], "name": [f"{method.upper()} {path}"], "tag": list(definition.get("tags", []))}
    attrs["operation_id"] = [definition["operationId"]] if "operationId" in definition else []
    return attrs


def _regex(value: Any) -> "re.Pattern":
    if isinstance(value, dict):  # a compiled regex given by the user, with its flags
        return re.compile(value["compiled"], re.IGNORECASE if "I" in value.get("flags", "") else 0)
    return re.compile(value)


def term_matches(kw: dict, op: list) -> bool:
    """All conditions of one apply_to/skip_for term hold for the operation (AND).

    docs/extending.rst + docs/auth.rst: path, method ("the upper-cased HTTP method"), name ("GET /users/"), tag ("the tag assigned to the
    API operation" - an operation may carry several, none of them or no operationId at all), operation_id; "each condition can take either
    a single string or a list of options"; `<condition>_regex` takes "a string or a compiled regex"; a custom function comes first.
    """
    method, path = op
    attrs = op_attributes(op)
    for key, value in kw.items():
        if key == "func":
            ok = PREDICATES[value][1](method, path)
        elif key == "method" and not is_gql(op):
            ok = method.upper() in [m.upper() for m in _as_list(value)]
        elif key in ("path", "name", "tag", "operation_id") and key in attrs:
            ok = any(v in _as_list(value) for v in attrs[key])
        elif key.endswith("_regex") and key[: -len("_regex")] in attrs:
            rx = _regex(value)
            ok = any(rx.search(v) is not None for v in attrs[key[: -len("_regex")]])
        else:
            raise AssertionError(f"condition {key} is not modelled")
        if not ok:
            return False
    return True


def own_filter_matches(spec: list, op: list) -> bool:
    """docs/extending.rst: terms are OR-ed, skip_for excludes, no apply_to term = everything."""
    includes = [kw for t, kw in spec if t == "apply"]
    excludes = [kw for t, kw in spec if t == "skip"]
    if any(term_matches(kw, op) for kw in excludes):
        return False
    return not includes or any(term_matches(kw, op) for kw in includes)


def spec_terms(spec: list) -> list:
    """Canonical content of a filter: sorted list of [apply|skip, sorted conditions]."""
    out = []
    for t, kw in spec:
        conds = []
        for key, value in kw.items():
            if key == "method":
                value = [m.upper() for m in value] if isinstance(value, list) else value.upper()
            elif key.endswith("_regex") and isinstance(value, dict):
                value = value["compiled"]
            conds.append([key, value])
        out.append([t, sorted(conds, key=repr)])
    return sorted(out, key=repr)


def union_terms(specs: list[list]) -> list:
    out = []
    for s in specs:
        for term in spec_terms(s):
            if term not in out:
                out.append(term)
    return sorted(out, key=repr)


def own_class(spec: list) -> str:
    kinds = {t for t, _ in spec}
    if not kinds:
        return "none"
    if kinds == {"apply"}:
        return "apply"
    if kinds == {"skip"}:
        return "skip"
    return "apply+skip"


def container_of(kind: str) -> str:
    if kind == "before_add_examples":
        return "examples"
    if kind == "before_process_path":
        return "path_processing"
    for verb in ("before_generate_", "filter_", "map_", "flatmap_"):
        if kind.startswith(verb):
            return kind[len(verb):]
    raise AssertionError(kind)


def verb_of(kind: str) -> str | None:
    for verb in ("before_generate", "filter", "map", "flatmap"):
        if kind.startswith(verb + "_"):
            return verb
    return None


def has_container(kind: str, op: list) -> bool:
    if kind == "before_process_path":
        return False  # runs while the schema is parsed, not per generated case: never judged
    return container_of(kind) != "body" or op == ["POST", "/a"] or is_gql(op)


# ---------------------------------------------------------------------------------------------------------------------
# observation of the stored filter (structure only - no matching code of the implementation is used for expectations)
# ---------------------------------------------------------------------------------------------------------------------

_LABEL = re.compile(r"^(\w+?)(_regex)?=(.*)$", re.S)


def stored_terms(fn: Any) -> list | None:
    """Content of ``fn.filter_set`` in the same canonical form as ``spec_terms``; None when there is no attribute."""
    import ast

    fs = getattr(fn, "filter_set", None)
    if fs is None:
        return None
    out = []
    for t, filters in (("apply", fs._includes), ("skip", fs._excludes)):
        for f in filters:
            conds = []
            for m in f.matchers:
                mo = _LABEL.match(m.label)
                if mo is None:
                    # a custom matcher function is labelled with the function's name
                    conds.append(["func", m.label])
                    continue
                attr, rx, raw = mo.groups()
                attr = "name" if attr == "label" else attr
                if rx:
                    # re.compile('...') repr
                    pat = m.func.keywords["regex"].pattern
                    conds.append([attr + "_regex", pat])
                else:
                    value = ast.literal_eval(raw)
                    if attr == "method":  # letter case of a stored method value is not observable (spec_terms does the same)
                        value = [v.upper() for v in value] if isinstance(value, list) else value.upper()
                    conds.append([attr, value])
            out.append([t, sorted(conds, key=repr)])
    return sorted(out, key=repr)


# ---------------------------------------------------------------------------------------------------------------------
# building a history on the real objects
# ---------------------------------------------------------------------------------------------------------------------


class Env:
    def __init__(self) -> None:
        self.schema: Any = None
        self.test: Callable | None = None
        self.log: list = []
        self.hook_regs: list[dict] = []
        self.auth_regs: list[dict] = []
        self.rejected: list[str] = []
        self.failed: dict | None = None  # a registration that is legal on its own raised
        self.rejected_specs: list[dict] = []  # filters of registrations rejected as documented
        self.n = 0
        self.seq = 0  # position of a registration in the order of definition (docs/extending.rst: "execute in the order they are defined")
        self.spec = "openapi"
        self.view: str | None = None  # observe through schema.include(..) / schema.exclude(..) instead of the schema itself
        self.undecided: list[str] = []
        self.foreign = 0  # calls of unregister(<function never registered>)


def reset_globals() -> None:
    import schemathesis
    from schemathesis import hooks

    schemathesis.hooks.unregister_all()
    schemathesis.auth.unregister()
    fresh = hooks.to_filterable_hook(hooks.GLOBAL_HOOK_DISPATCHER)
    hooks.GLOBAL_HOOK_DISPATCHER.register = fresh  # type: ignore[method-assign]
    hooks.register = fresh
    schemathesis.hook = fresh
    common.reset_schemathesis_caches()


def _label(context: Any) -> str | None:
    op = getattr(context, "operation", None)
    return None if op is None else op.label


def make_hook(kind: str, tag: str, name: str, log: list) -> Callable:
    from hypothesis import strategies as st

    cont = container_of(kind)

    def tagged(value: Any) -> Any:
        if cont == "query":
            return {**(value or {}), "t_" + tag: "1"}
        if cont == "headers":
            return {**(value or {}), "X-T-" + tag: "1"}
        if cont == "case":
            value.query = {**(value.query or {}), "t_" + tag: "1"}
            return value
        return value

    if kind.startswith("before_generate_"):

        def fn(context, strategy):  # type: ignore[no-untyped-def]
            log.append((tag, _label(context)))
            return strategy.map(tagged)
    elif kind.startswith("filter_"):

        def fn(context, value):  # type: ignore[no-untyped-def]
            log.append((tag, _label(context)))
            return True
    elif kind.startswith("flatmap_"):

        def fn(context, value):  # type: ignore[no-untyped-def]
            log.append((tag, _label(context)))
            return st.just(tagged(value))
    elif kind.startswith("map_"):

        def fn(context, value):  # type: ignore[no-untyped-def]
            log.append((tag, _label(context)))
            return tagged(value)
    elif kind == "before_add_examples":

        def fn(context, examples):  # type: ignore[no-untyped-def]
            log.append((tag, _label(context)))
    elif kind == "before_process_path":

        def fn(context, path, methods):  # type: ignore[no-untyped-def]
            pass
    else:
        raise AssertionError(kind)
    fn.__name__ = name
    fn.__qualname__ = name
    return fn


def make_provider(tag: str) -> type:
    class Provider:
        def get(self, case, context):  # type: ignore[no-untyped-def]
            return tag

        def set(self, case, data, context):  # type: ignore[no-untyped-def]
            case.headers = {**(case.headers or {}), "Authorization": data}

    Provider.__name__ = "Auth_" + tag
    return Provider


def real_arguments(kw: dict) -> tuple[list, dict]:
    """The call a user writes for one term: a custom function goes first, a compiled regex is passed as such."""
    args: list = []
    kwargs: dict = {}
    for key, value in kw.items():
        if key == "func":
            args.append(PREDICATES[value][0])
        elif key.endswith("_regex") and isinstance(value, dict):
            kwargs[key] = _regex(value)
        else:
            kwargs[key] = value
    return args, kwargs


def chain(target: Any, spec: list) -> Any:
    for t, kw in spec:
        args, kwargs = real_arguments(kw)
        target = (target.apply_to if t == "apply" else target.skip_for)(*args, **kwargs)
    return target


def _dispatcher(env: Env, scope: str) -> Any:
    from schemathesis import hooks

    if scope == "G":
        return hooks.GLOBAL_HOOK_DISPATCHER
    if scope in ("S", "S2"):
        return env.schema.hooks
    return hooks.HookDispatcherMark.get(env.test)


def _register_hook(env: Env, fn: Callable, kind: str, form: str, scope: str, spec: list) -> None:
    import schemathesis

    if scope == "T":
        assert not spec
        if form == "apply":
            env.schema.hooks.apply(fn)(env.test)
        else:
            env.schema.hooks.apply(fn, name=kind)(env.test)
        return
    entry = {"G": lambda: schemathesis.hook, "S": lambda: env.schema.hook, "S2": lambda: env.schema.hooks.register}[scope]()
    if form == "fn":
        chain(entry, spec)(fn)
    elif form == "str":
        chain(entry, spec)(kind)(fn)
    elif form == "str_filter":
        chain(entry(kind), spec)(fn)
    else:
        raise AssertionError(form)


def apply_action(env: Env, action: dict) -> None:
    import schemathesis
    from schemathesis.core.errors import IncorrectUsage

    t = action["t"]
    if t == "hook":
        tag = f"r{env.n}"
        env.n += 1
        kind, form, scope, spec = action["kind"], action["form"], action["scope"], action["filter"]
        by_name = form in ("fn", "apply")
        fn = make_hook(kind, tag, kind if by_name else f"custom_{tag}", env.log)
        try:
            _register_hook(env, fn, kind, form, scope, spec)
        except ValueError as exc:
            if kind == "before_process_path" and spec and "Filters are not applicable to this hook" in str(exc):
                # documented: test/hooks/test_filters.py::test_invalid_hook
                env.rejected.append("filter_on_unfilterable_hook")
                env.rejected_specs.append({"entry": scope, "spec": spec})
                return
            raise
        except IncorrectUsage as exc:
            # every action of the alphabet is accepted when it is the only one (depth-1 histories), so a rejection here
            # depends on what was registered before
            env.failed = {"position": len(env.hook_regs), "form": form, "own": own_class(spec), "entry": scope, "kind": kind,
                          "error": type(exc).__name__, "message": str(exc), "spec": spec}
            return
        env.seq += 1
        env.hook_regs.append({"tag": tag, "scope": "S" if scope == "S2" else scope, "entry": scope, "form": form, "kind": kind,
                              "own": spec, "fn": fn, "live": True, "removed_by": None, "seq": env.seq, "copies": 1, "share": None})
    elif t == "rehook":
        if action["i"] >= len(env.hook_regs) or not env.hook_regs[action["i"]]["live"] or env.hook_regs[action["i"]]["scope"] == "T":
            env.rejected.append("rehook_target_missing")
            return
        reg = env.hook_regs[action["i"]]
        _dispatcher(env, reg["scope"]).register_hook_with_name(reg["fn"], reg["kind"])
        reg["copies"] += 1
    elif t in ("alias", "twin"):
        # the SAME function object registered a second time through a decorator, with the same filters of its own:
        #   alias = on the same entry point under a second hook name (a generic `def tagger(context, value)` used for query and headers)
        #   twin  = under the same name on the other of the two scopes global / schema
        reg = env.hook_regs[action["i"]] if action["i"] < len(env.hook_regs) else None
        if (reg is None or not reg["live"] or reg["scope"] == "T" or verb_of(reg["kind"]) is None
                or any(r is not reg and r["fn"] is reg["fn"] for r in env.hook_regs)):
            env.rejected.append(t + "_not_applicable")
            return
        if t == "alias":
            swap = {"query": "headers", "headers": "query"}
            if container_of(reg["kind"]) not in swap:
                env.rejected.append("alias_not_applicable")
                return
            kind2 = f"{verb_of(reg['kind'])}_{swap[container_of(reg['kind'])]}"
            entry2, form2 = reg["entry"], ("str_filter" if reg["form"] == "str_filter" else "str")
        else:
            kind2 = reg["kind"]
            entry2, form2 = ("S" if reg["scope"] == "G" else "G"), reg["form"]
        _register_hook(env, reg["fn"], kind2, form2, entry2, reg["own"])
        env.seq += 1
        env.hook_regs.append({"tag": reg["tag"], "scope": "S" if entry2 == "S2" else entry2, "entry": entry2, "form": form2, "kind": kind2,
                              "own": reg["own"], "fn": reg["fn"], "live": True, "removed_by": None, "seq": env.seq, "copies": 1,
                              "share": "two_names" if t == "alias" else "two_scopes"})
        reg["share"] = "two_names" if t == "alias" else "two_scopes"
    elif t == "rereg":
        if action["i"] >= len(env.hook_regs):
            env.rejected.append("rereg_target_missing")
            return
        reg = env.hook_regs[action["i"]]
        if reg["live"] or reg["scope"] == "T" or (action["form"] == "fn" and reg["form"] not in ("fn", "apply")) or any(
            r is not reg and r["fn"] is reg["fn"] for r in env.hook_regs
        ):
            # two live registrations of one function with different filters: the text does not say which filter holds;
            # the by-function-name form needs a function that carries the hook's name
            env.rejected.append("rereg_not_applicable")
            return
        _register_hook(env, reg["fn"], reg["kind"], action["form"], reg["entry"], action["filter"])
        env.seq += 1
        reg.update({"live": True, "removed_by": None, "own": action["filter"], "form": action["form"], "reregistered": True,
                    "seq": env.seq, "copies": 1})
    elif t == "unreg":
        if action["i"] >= len(env.hook_regs):
            env.rejected.append("unregister_target_missing")
            return
        reg = env.hook_regs[action["i"]]
        if reg["scope"] == "G":
            schemathesis.hooks.unregister(reg["fn"])
        else:
            _dispatcher(env, reg["scope"]).unregister(reg["fn"])
        # "unregister a specific hook" on ONE dispatcher: every registration of that function there, under whatever name; none elsewhere
        for r in env.hook_regs:
            if r["fn"] is reg["fn"] and r["scope"] == reg["scope"] and r["live"]:
                r["live"] = False
                r["removed_by"] = "unregister"
    elif t == "unreg_other_scope":
        # the function of hook #i handed to `unregister` of the OTHER scope's dispatcher: only a registration made there may go
        reg = env.hook_regs[action["i"]] if action["i"] < len(env.hook_regs) else None
        if reg is None or reg["scope"] == "T":
            env.rejected.append("unregister_target_missing")
            return
        other = "S" if reg["scope"] == "G" else "G"
        if other == "G":
            schemathesis.hooks.unregister(reg["fn"])
        else:
            env.schema.hooks.unregister(reg["fn"])
        for r in env.hook_regs:
            if r["fn"] is reg["fn"] and r["scope"] == other and r["live"]:
                r["live"] = False
                r["removed_by"] = "unregister"
    elif t == "unreg_foreign":
        # a function that was never registered anywhere but carries the __name__ of a registered one
        name = env.hook_regs[0]["fn"].__name__ if env.hook_regs else "map_query"
        kind = env.hook_regs[0]["kind"] if env.hook_regs else "map_query"
        stranger = make_hook(kind, "stranger", name, env.log)
        try:
            if action["scope"] == "G":
                schemathesis.hooks.unregister(stranger)
            else:
                env.schema.hooks.unregister(stranger)
        except Exception as exc:  # neither a no-op nor an error is documented for this call: never judged
            env.undecided.append("unregister_of_unknown_function_raised_" + type(exc).__name__)
        env.foreign += 1
    elif t == "unreg_all":
        if action["scope"] == "G":
            schemathesis.hooks.unregister_all()
        else:
            env.schema.hooks.unregister_all()
        for reg in env.hook_regs:
            if reg["scope"] == action["scope"] and reg["live"]:
                reg["live"] = False
                reg["removed_by"] = "unregister_all"
    elif t == "auth":
        tag = f"p{env.n}"
        env.n += 1
        scope, spec = action["scope"], action["filter"]
        kwargs = {} if action["cache"] else {"refresh_interval": None}
        reg = {"tag": tag, "scope": scope, "own": spec, "via": action["via"], "live": True}
        if action["via"] == "requests":
            from requests.auth import HTTPBasicAuth

            storage = schemathesis.auth if scope == "G" else env.schema.auth
            chain(storage.set_from_requests(HTTPBasicAuth(tag, "x")), spec)
        elif scope == "G":
            chain(schemathesis.auth(**kwargs), spec)(make_provider(tag))
        elif scope == "S":
            chain(env.schema.auth(**kwargs), spec)(make_provider(tag))
        else:
            try:
                chain(env.schema.auth(make_provider(tag), **kwargs), spec)(env.test)
            except IncorrectUsage:
                # documented: a test can be decorated with one provider only
                if any(r["scope"] == "T" for r in env.auth_regs):
                    env.rejected.append("second_test_level_auth")
                    return
                raise
            if any(r["scope"] == "T" for r in env.auth_regs):
                raise AssertionError("second test-level auth was accepted")
        env.auth_regs.append(reg)
    elif t == "auth_unreg":
        if action["scope"] == "G":
            schemathesis.auth.unregister()
        else:
            env.schema.auth.unregister()
        for reg in env.auth_regs:
            if reg["scope"] == action["scope"]:
                reg["live"] = False
    else:
        raise AssertionError(t)


def build(history: list[dict], view: str | None = None, spec: str = "openapi") -> Env:
    import schemathesis

    reset_globals()
    env = Env()
    env.view = view
    env.spec = spec
    env.schema = schemathesis.graphql.from_file(GQL_SDL) if spec == "graphql" else schemathesis.openapi.from_dict(DOC)

    def test(case):  # type: ignore[no-untyped-def]
        pass

    env.test = test
    for action in history:
        apply_action(env, action)
        if env.failed is not None:
            break
    return env


# ---------------------------------------------------------------------------------------------------------------------
# observation + judgement
# ---------------------------------------------------------------------------------------------------------------------


def rid(reg: dict) -> str:
    """One registration (a function shared by two registrations has one tag but two scopes or two hook names)."""
    return f"{reg['tag']}/{reg['scope']}/{reg['kind']}"


def observe(env: Env, res: Result) -> dict:
    from schemathesis.auths import AuthStorageMark
    from schemathesis.generation.hypothesis import builder
    from schemathesis.hooks import HookContext, HookDispatcherMark

    test_hooks = HookDispatcherMark.get(env.test)
    test_auth = AuthStorageMark.get(env.test)
    obs: dict = {"ops": {}, "stored": {}, "present": {}, "stored_match": {}, "shared": {}}
    for reg in env.hook_regs:
        obs["stored"][rid(reg)] = stored_terms(reg["fn"])
        disp = _dispatcher(env, reg["scope"])
        obs["present"][rid(reg)] = disp is not None and any(h is reg["fn"] for h in disp.get_all_by_name(reg["kind"]))
        fs = getattr(reg["fn"], "filter_set", None)
        obs["shared"][rid(reg)] = fs is not None and any(
            o["fn"] is not reg["fn"] and getattr(o["fn"], "filter_set", None) is fs for o in env.hook_regs
        )
    want_examples = any(r["kind"] == "before_add_examples" for r in env.hook_regs)
    # docs/python.rst: `@schema.include(tag="admin").exclude(method="POST").parametrize()` is THE way a schema is narrowed for a test; the
    # derived schema is created after the whole history here, so everything registered on `schema` belongs to its scope; both filters
    # keep all three operations
    if env.view == "include":
        schema = env.schema.include(path_regex="^/")
    elif env.view == "exclude":
        schema = env.schema.exclude(method="PUT")
    else:
        assert env.view is None
        schema = env.schema
    for op in ops_of(env.spec):
        operation = schema[op[0]][op[1]] if is_gql(op) else schema[op[1]][op[0]]
        key = op_key(op)
        del env.log[:]
        strategy = operation.as_strategy(hooks=test_hooks, auth_storage=test_auth)
        ex = replay(draw_strategy(strategy), ALPHA, [])
        res.evaluations += 1
        if ex.status == "error":
            # generating a case for this operation raised: judged (an extension was neither applied nor skipped), nothing else is
            obs["ops"][key] = {"log": [], "examples_log": [], "query_tags": [], "header_tags": [], "auth": None, "explicit_auth": False,
                               "error": [type(ex.error).__name__, str(ex.error)[:200]]}
            continue
        if ex.status != "valid":
            raise AssertionError(f"generation along the default path was {ex.status}: {ex.error!r}")
        case = ex.value
        gen_log = list(env.log)
        ex_log: list = []
        if want_examples:
            del env.log[:]

            def test_fn(case):  # type: ignore[no-untyped-def]
                pass

            builder.add_examples(test_fn, operation, hook_dispatcher=test_hooks)
            res.evaluations += 1
            ex_log = list(env.log)
        headers = dict(case.headers or {})
        query = dict(case.query or {})
        auth_obs = None
        if "Authorization" in headers:
            auth_obs = headers["Authorization"]
        if getattr(case, "_auth", None) is not None:
            user = getattr(case._auth, "username", "?")
            auth_obs = user if auth_obs is None else f"{auth_obs}+{user}"
        ctx = HookContext(operation)
        for reg in env.hook_regs:
            fs = getattr(reg["fn"], "filter_set", None)
            # behaviour of the STORED filter object on this operation (observation, not expectation)
            try:
                matched = True if fs is None else bool(fs.match(ctx))
            except Exception:  # only used to word a violation
                matched = None
            obs["stored_match"].setdefault(rid(reg), {})[key] = matched
        obs["ops"][key] = {
            "log": gen_log,
            "examples_log": ex_log,
            "query_tags": sorted(k[2:] for k in query if k.startswith("t_")),
            "header_tags": sorted(k[4:] for k in headers if k.startswith("X-T-")),
            "auth": auth_obs,
            "explicit_auth": bool(getattr(case, "_has_explicit_auth", False)),
            "error": None,
        }
    return obs


def _stored_class(reg: dict, env: Env, stored: list) -> str:
    """Where the wrong stored filter comes from - facts only (object identity and content of the filters given in the history)."""
    if not stored:
        return "empty"
    fs = getattr(reg["fn"], "filter_set", None)
    same_entry = [r for r in env.hook_regs if r is not reg and r["entry"] == reg["entry"]]
    sharing = [r for r in same_entry if getattr(r["fn"], "filter_set", None) is fs]
    for other in sharing:
        if other["own"] and spec_terms(other["own"]) == stored:
            earlier = env.hook_regs.index(other) < env.hook_regs.index(reg)
            return "own_filter_of_earlier_registration_on_same_entry_point" if earlier else "own_filter_of_later_registration_on_same_entry_point"
    rejected = [r["spec"] for r in env.rejected_specs if r["entry"] == reg["entry"]]
    own_and_rejected = union_terms([reg["own"]] + rejected)
    if rejected and all(term in own_and_rejected for term in stored) and all(term in stored for term in spec_terms(reg["own"])):
        return "own_filter_plus_filter_of_rejected_registration_on_same_entry_point"
    given = [r["own"] for r in same_entry + [reg]] + rejected
    if env.failed is not None and env.failed["entry"] == reg["entry"]:
        given.append(env.failed["spec"])  # a registration that raised may have left a part of its filter behind
    allowed = union_terms(given)
    if all(term in allowed for term in stored):
        return "mixture_of_filters_given_on_same_entry_point"
    return "other"


def judge(env: Env, obs: dict, history: list[dict], res: Result) -> str:
    outcome = "consistent"
    hist_txt = [describe(a) for a in history]

    def violation(sig: dict, detail: dict) -> None:
        nonlocal outcome
        outcome = "violation"
        if env.view is not None:
            # observed through schema.include(..) / schema.exclude(..): a separate fact, so that a defect of the derivation is not filed
            # under a signature of the plain schema
            sig = {**sig, "observed_through": "schema." + env.view}
        res.violation(sig, {"history": hist_txt, **detail})

    if env.failed is not None:
        f = env.failed
        violation({"kind": "registration_legal_on_its_own_rejected", "error": f["error"], "message": f["message"], "form": f["form"],
                   "own": f["own"], "first_on_entry_point": not any(r["entry"] == f["entry"] for r in env.hook_regs),
                   "after_documented_rejection_on_entry_point": any(r["entry"] == f["entry"] for r in env.rejected_specs)},
                  {"rejected_registration": {k: v for k, v in f.items() if k != "spec"}, "own_filter": spec_terms(f["spec"])})
    # (1) stored filter = filter given at the hook's own registration
    for reg in env.hook_regs:
        stored = obs["stored"][rid(reg)]
        expected = spec_terms(reg["own"])
        res.count("stored_filters_compared")
        if (stored or []) != expected:
            first_on_entry = [r for r in env.hook_regs if r["entry"] == reg["entry"]][0] is reg
            violation(
                {"kind": "stored_filter_differs_from_own", "form": reg["form"], "own": own_class(reg["own"]),
                 "stored": _stored_class(reg, env, stored or []), "filter_object_shared": obs["shared"][rid(reg)],
                 "first_on_entry_point": first_on_entry},
                {"hook": reg["tag"], "kind": reg["kind"], "entry": reg["entry"], "own_filter": expected, "stored_filter": stored},
            )
        elif expected:
            res.count("stored_nonempty_filters_equal_own")
    # (3) unregister removes exactly that hook
    for reg in env.hook_regs:
        present = obs["present"][rid(reg)]
        if present != reg["live"]:
            if present:
                sig = {"kind": "hook_still_registered_after_unregistration", "by": reg["removed_by"], "scope": reg["scope"]}
            else:
                sig = {"kind": "hook_removed_without_being_unregistered", "scope": reg["scope"],
                       "history_has": sorted({a["t"] for a in history if a["t"].startswith("unreg")})}
            violation(sig, {"hook": reg["tag"], "kind": reg["kind"], "present": present, "model_live": reg["live"]})
        elif not reg["live"]:
            res.count("unregistered_hooks_gone")
        elif any(not r["live"] for r in env.hook_regs):
            res.count("hooks_surviving_an_unregistration")
    # (2) application
    for op in ops_of(env.spec):
        key = op_key(op)
        o = obs["ops"][key]
        if o["error"] is not None:
            conds = sorted({c for r in env.hook_regs + env.auth_regs if r["live"] for _, kw in r["own"] for c in kw})
            violation({"kind": "case_generation_raised", "schema": env.spec, "error": o["error"][0], "message": o["error"][1],
                       "operation_id_condition_on_graphql_operation": env.spec == "graphql" and any(c.startswith("operation_id") for c in conds)},
                      {"operation": key, "conditions_of_live_filters": conds})
            continue
        for source, log in (("generation", o["log"]), ("examples", o["examples_log"])):
            for tag, label in log:
                if label != key:
                    violation({"kind": "hook_called_with_context_of_another_operation", "source": source},
                              {"hook": tag, "context": label, "operation": key})
        ran_gen = {tag for tag, _ in o["log"]}
        ran_ex = {tag for tag, _ in o["examples_log"]}
        judge_shared(env, op, key, o, history, violation, res)
        judge_order(env, key, o, violation, res)
        for reg in env.hook_regs:
            cont = container_of(reg["kind"])
            if not has_container(reg["kind"], op):
                res.count("undecided_no_body_on_operation")
                continue
            if reg["share"] is not None:
                continue  # one function, two registrations: judged by call counts in judge_shared
            observed = reg["tag"] in (ran_ex if cont == "examples" else ran_gen)
            expected = reg["live"] and own_filter_matches(reg["own"], op)
            res.count("applications_judged")
            if reg["live"]:
                for _, kw in reg["own"]:
                    for cond in kw:
                        res.count(f"term_{cond}_{'applied' if observed else 'skipped'}")
                if len(reg["own"]) > 1 or any(len(kw) > 1 for _, kw in reg["own"]):
                    res.count("compound_filter_" + ("applied" if observed else "skipped"))
            if observed and reg["own"]:
                res.count("filtered_hook_applied")
            if not observed and reg["live"] and reg["own"]:
                res.count("filtered_hook_skipped")
            if observed:
                res.count(f"applied_scope_{reg['scope']}")
                res.count(f"applied_kind_{reg['kind']}")
            if observed != expected:
                present = obs["present"][rid(reg)]
                stored_match = obs["stored_match"][rid(reg)][key]
                if present != reg["live"] and observed == (present and stored_match):
                    explained = "registered_set"
                elif observed == (present and stored_match) and (stored_match != own_filter_matches(reg["own"], op)):
                    explained = "stored_filter"
                else:
                    explained = "dispatch"
                violation(
                    {"kind": "hook_application_differs_from_own_filter",
                     "direction": "applied_outside_own_filter" if observed else "not_applied_inside_own_filter",
                     "explained_by": explained, "container": cont, "hook_kind": reg["kind"], "scope": reg["scope"]},
                    {"hook": reg["tag"], "operation": key, "own_filter": spec_terms(reg["own"]), "stored_filter": obs["stored"][rid(reg)],
                     "model_live": reg["live"], "present": present, "stored_filter_matches_operation": stored_match},
                )
            # effect on the generated data for tagging kinds
            if cont in ("query", "headers", "case") and not reg["kind"].startswith("filter_"):
                tags = o["header_tags"] if cont == "headers" else o["query_tags"]
                if (reg["tag"] in tags) != observed:
                    violation({"kind": "hook_ran_but_generated_data_disagrees", "hook_kind": reg["kind"], "scope": reg["scope"],
                               "tag_in_data": reg["tag"] in tags},
                              {"hook": reg["tag"], "operation": key, "query_tags": o["query_tags"], "header_tags": o["header_tags"]})
                elif observed:
                    res.count("effects_seen_in_generated_data")
        # (4) auth
        if env.auth_regs:
            judge_auth(env, op, key, o, violation, res)
    return outcome


def judge_shared(env: Env, op: list, key: str, o: dict, history: list[dict], violation: Callable, res: Result) -> None:
    """One function object registered twice (two hook names on one dispatcher, or one name on the global and the schema dispatcher), both
    times with the same filter of its own: each live registration whose filter selects the operation calls the function once."""
    done = set()
    for reg in env.hook_regs:
        if reg["share"] is None or reg["tag"] in done:
            continue
        done.add(reg["tag"])
        group = [r for r in env.hook_regs if r["tag"] == reg["tag"]]
        expected = sum(r["copies"] for r in group if r["live"] and has_container(r["kind"], op) and own_filter_matches(r["own"], op))
        observed = sum(1 for tag, _ in o["log"] if tag == reg["tag"])
        res.count("shared_function_applications_judged")
        if expected and observed == expected:
            res.count(f"shared_function_{reg['share']}_applied_{min(expected, 2)}x")
        if observed != expected:
            violation(
                {"kind": "function_registered_twice_called_wrong_number_of_times", "shape": reg["share"],
                 "direction": "more_calls_than_live_matching_registrations" if observed > expected else "fewer_calls_than_live_matching_registrations",
                 "live": sorted(f"{r['scope']}:{verb_of(r['kind'])}" for r in group if r["live"]),
                 "history_has": sorted({a["t"] for a in history if a["t"].startswith("unreg")})},
                {"hook": reg["tag"], "operation": key, "calls": observed, "expected_calls": expected,
                 "registrations": [[r["scope"], r["kind"], r["live"], r["copies"], spec_terms(r["own"])] for r in group]},
            )


_RANK = {"G": 0, "S": 1, "T": 2}


def judge_order(env: Env, key: str, o: dict, violation: Callable, res: Result) -> None:
    """docs/extending.rst: "They execute in the order they are defined, with globally defined hooks executing first, followed by
    schema-specific hooks, and finally test-specific hooks."  Judged for two hooks of the SAME kind only (the relative order of, say, a
    filter_ and a map_ hook is not documented), on the first call of each while one case is generated."""
    first: dict[str, int] = {}
    for pos, (tag, _) in enumerate(o["log"]):
        first.setdefault(tag, pos)
    regs = [r for r in env.hook_regs if r["share"] is None and r["live"] and r["tag"] in first and verb_of(r["kind"]) is not None]
    for i, a in enumerate(regs):
        for b in regs[i + 1:]:
            if a["kind"] != b["kind"]:
                continue
            ka, kb = (_RANK[a["scope"]], a["seq"]), (_RANK[b["scope"]], b["seq"])
            lo, hi = (a, b) if ka < kb else (b, a)
            res.count("order_pairs_judged")
            if lo["scope"] != hi["scope"]:
                res.count("order_pairs_across_scopes")
                if lo["seq"] > hi["seq"]:
                    res.count("order_pairs_scope_order_against_definition_order")
            if first[lo["tag"]] > first[hi["tag"]]:
                violation({"kind": "hooks_run_out_of_documented_order", "hook_kind": a["kind"], "expected_first": lo["scope"],
                           "ran_first": hi["scope"]},
                          {"operation": key, "expected_first": lo["tag"], "ran_first": hi["tag"], "calls": [t for t, _ in o["log"]]})


def judge_auth(env: Env, op: list, key: str, o: dict, violation: Callable, res: Result) -> None:
    observed = o["auth"]
    by_tag = {r["tag"]: r for r in env.auth_regs}
    res.count("auth_judged")
    if observed is not None:
        reg = by_tag.get(observed)
        if reg is None:
            violation({"kind": "auth_from_unknown_or_several_providers"}, {"operation": key, "observed": observed})
            return
        res.count(f"auth_applied_scope_{reg['scope']}")
        if not reg["live"]:
            violation({"kind": "unregistered_auth_provider_applied", "scope": reg["scope"]}, {"operation": key, "provider": observed})
            return
        if not own_filter_matches(reg["own"], op):
            violation({"kind": "auth_applied_outside_own_filter", "scope": reg["scope"], "own": own_class(reg["own"]), "via": reg["via"]},
                      {"operation": key, "provider": observed, "own_filter": spec_terms(reg["own"])})
            return
        if reg["own"]:
            res.count("filtered_auth_applied")
            for _, kw in reg["own"]:
                for cond in kw:
                    res.count(f"auth_term_{cond}_applied")
        if not o["explicit_auth"]:
            violation({"kind": "auth_applied_but_case_not_marked_explicit"}, {"operation": key, "provider": observed})
    live = [r for r in env.auth_regs if r["live"]]
    top = None
    for scope in ("T", "S", "G"):
        if any(r["scope"] == scope for r in live):
            top = scope
            break
    if top is None:
        if observed is None:
            res.count("auth_none_after_unregister")
        return
    candidates = [r for r in live if r["scope"] == top and own_filter_matches(r["own"], op)]
    lower = [r for r in live if r["scope"] != top and own_filter_matches(r["own"], op)]
    if candidates:
        tags = [r["tag"] for r in candidates]
        if observed is None:
            violation({"kind": "auth_not_applied_inside_own_filter", "scope": top, "own": own_class(candidates[0]["own"]), "via": candidates[0]["via"]},
                      {"operation": key, "expected_one_of": tags})
        elif observed not in tags:
            r = by_tag[observed]
            if r["scope"] != top:
                violation({"kind": "auth_of_lower_scope_applied_although_higher_scope_matches", "applied_scope": r["scope"], "higher_scope": top},
                          {"operation": key, "observed": observed, "expected_one_of": tags})
        elif observed != tags[0]:
            res.count("auth_order_among_matching_providers_undecided")
        else:
            res.count("auth_first_matching_provider_applied")
    else:
        if any(r["own"] for r in live if r["scope"] == top):
            res.count("filtered_auth_skipped")
        if lower:
            res.count("auth_shadowed_undecided")


def describe(a: dict) -> str:
    def filt(spec: list) -> str:
        def arg(k: str, v: Any) -> str:
            if k == "func":
                return str(v)
            if isinstance(v, dict):
                return f"{k}=re.compile({v['compiled']!r}{', re.IGNORECASE' if 'I' in v.get('flags', '') else ''})"
            return f"{k}={v!r}"

        return "".join(f".{'apply_to' if t == 'apply' else 'skip_for'}({', '.join(arg(k, v) for k, v in kw.items())})" for t, kw in spec)

    if a["t"] == "hook":
        ep = {"G": "schemathesis.hook", "S": "schema.hook", "S2": "schema.hooks.register", "T": "schema.hooks.apply"}[a["scope"]]
        if a["form"] == "fn":
            return f"@{ep}{filt(a['filter'])} def {a['kind']}"
        if a["form"] == "str":
            return f"@{ep}{filt(a['filter'])}({a['kind']!r}) def custom"
        if a["form"] == "str_filter":
            return f"@{ep}({a['kind']!r}){filt(a['filter'])} def custom"
        if a["form"] == "apply":
            return f"@{ep}({a['kind']}) on test"
        return f"@{ep}(custom, name={a['kind']!r}) on test"
    if a["t"] == "rehook":
        return f"register hook #{a['i']} (same function, same name) again"
    if a["t"] == "rereg":
        return f"register the function of hook #{a['i']} again" + (" by name" if a["form"] == "str" else " by function name") + (filt(a["filter"]) or " without filters")
    if a["t"] == "unreg":
        return f"unregister(hook #{a['i']})"
    if a["t"] == "alias":
        return f"register the function of hook #{a['i']} under a second hook name (query <-> headers) with the same filters"
    if a["t"] == "twin":
        return f"register the function of hook #{a['i']} on the other scope (global <-> schema) with the same filters"
    if a["t"] == "unreg_other_scope":
        return f"unregister(function of hook #{a['i']}) on the OTHER scope's dispatcher (global <-> schema)"
    if a["t"] == "unreg_foreign":
        return ("schemathesis.hooks" if a["scope"] == "G" else "schema.hooks") + ".unregister(<never registered function with the same __name__>)"
    if a["t"] == "unreg_all":
        return ("schemathesis.hooks" if a["scope"] == "G" else "schema.hooks") + ".unregister_all()"
    if a["t"] == "auth":
        base = {"G": "schemathesis.auth", "S": "schema.auth", "T": "schema.auth"}[a["scope"]]
        extra = "" if a["cache"] else "refresh_interval=None"
        if a["via"] == "requests":
            return f"{base}.set_from_requests(HTTPBasicAuth){filt(a['filter'])}"
        if a["scope"] == "T":
            return f"@{base}(Provider{', ' + extra if extra else ''}){filt(a['filter'])} on test"
        return f"@{base}({extra}){filt(a['filter'])} class Provider"
    return ("schemathesis.auth" if a["scope"] == "G" else "schema.auth") + ".unregister()"


def canon(env: Env, obs: dict) -> Any:
    """Only what the property can observe: per extension its scope/kind/liveness/stored filter, per operation who ran / who authenticated."""
    return {
        "hooks": [[r["scope"], r["kind"], obs["present"][rid(r)], obs["stored"][rid(r)]] for r in env.hook_regs],
        "ops": {k: [sorted({t for t, _ in v["log"]}), sorted({t for t, _ in v["examples_log"]}), v["query_tags"], v["header_tags"], v["auth"]]
                for k, v in obs["ops"].items()},
        "auth": [[r["scope"], r["live"]] for r in env.auth_regs],
    }


def run_history(history: list[dict], res: Result, judge_it: bool = True, view: str | None = None, spec: str = "openapi") -> str:
    env = build(history, view, spec)
    obs = observe(env, res)
    if not judge_it:
        return digest(canon(env, obs))
    res.states += 1
    res.transitions += 1 if history else 0
    res.traces += 1
    outcome = judge(env, obs, history, res)
    for reason in env.rejected:
        res.outcomes.add("action_rejected_as_documented")
        res.count(reason + "_rejected")
    for reason in env.undecided:
        res.count("undecided_" + reason)
    if env.foreign and env.hook_regs and all(r["live"] for r in env.hook_regs):
        res.count("unregister_of_unknown_function_with_hooks_registered")
    if env.view is not None:
        res.count("observed_through_schema_" + env.view)
    if env.spec == "graphql":
        res.count("graphql_histories")
    res.outcomes.add(outcome if history else "empty_history")
    for a in history:
        if a["t"] == "hook":
            res.count(f"form_{a['form']}")
    nontrivial = any(r["own"] for r in env.hook_regs + env.auth_regs if r["live"]) or any(
        not r["live"] for r in env.hook_regs + env.auth_regs
    )
    if nontrivial:
        res.nontriv(canon(env, obs))
    if len(res.samples) < 2 and len(history) >= 2 and nontrivial:
        res.samples.append({"history": [describe(a) for a in history], "observation": canon(env, obs)})
    return outcome


SENTINELS = [[H("G", "fn", "map_query")], [AU("G")]]


def sentinel(res: Result) -> None:
    ds = [run_history(h, res, judge_it=False) for h in SENTINELS]
    res.count("sentinel_" + digest(ds))


def check_item(item: dict, tier: str) -> Result:
    res = Result()
    sigma = alphabet(item["fam"])
    prefix = [sigma[i] for i in item["prefix"]]
    depth = item["depth"]
    hooks_idx = {digest(a) for a in HOOKS_QUICK}

    def relevant(history: list[dict]) -> bool:
        if item["fam"] != "mixed":
            return True
        kinds = {digest(a) in hooks_idx for a in history}
        return len(kinds) == 2  # pure histories are covered by the hooks / auth families

    if item.get("root"):
        run_history([], res)
    # breadth-first below the prefix
    frontier = [prefix]
    while frontier:
        nxt = []
        for history in frontier:
            if relevant(history):
                run_history(history, res, view=view_of(item["fam"]), spec="graphql" if item["fam"] == "graphql" else "openapi")
            if len(history) < depth:
                for a in sigma:
                    if enabled(history, a):
                        nxt.append(history + [a])
        frontier = nxt
    sentinel(res)
    reset_globals()
    # one defect shows up in thousands of histories: the runner keeps two witnesses per signature and counts the rest
    res.count("violating_observations", sum(getattr(res, "violation_counts", {}).values()) or len(res.violations))
    return res


def vacuity(total: Result, tier: str) -> list[str]:
    out = []
    c = total.counters
    sentinels = [k for k in c if k.startswith("sentinel_")]
    if len(sentinels) != 1:
        out.append(f"the per-history reset of process globals is incomplete: {len(sentinels)} different sentinel observations")
    need = ["stored_nonempty_filters_equal_own", "filtered_hook_applied", "filtered_hook_skipped", "unregistered_hooks_gone",
            "hooks_surviving_an_unregistration", "effects_seen_in_generated_data", "applied_scope_G", "applied_scope_S", "applied_scope_T",
            "auth_applied_scope_G", "auth_applied_scope_S", "auth_applied_scope_T", "filtered_auth_applied", "filtered_auth_skipped",
            "auth_none_after_unregister", "second_test_level_auth_rejected", "filter_on_unfilterable_hook_rejected", "form_fn", "form_str", "form_str_filter", "form_apply",
            "form_apply_name", "applied_kind_map_query", "applied_kind_before_generate_query", "applied_kind_filter_query",
            "applied_kind_flatmap_query", "applied_kind_before_generate_headers", "applied_kind_filter_body", "applied_kind_map_case",
            "applied_kind_before_add_examples"]
    # review round 2: every documented condition was seen both selecting and excluding an operation, on hooks and on auth providers;
    # compound filters; every verb x container kind; one function registered twice; derived schemas; documented order
    for cond in ("method", "path", "name", "tag", "operation_id", "func"):
        need += [f"term_{cond}_applied", f"term_{cond}_skipped"]
        if cond != "func":
            need += [f"term_{cond}_regex_applied", f"term_{cond}_regex_skipped"]
    need += ["auth_term_tag_applied", "auth_term_operation_id_applied", "auth_term_func_applied", "auth_term_name_regex_applied",
             "auth_term_path_regex_applied", "compound_filter_applied", "compound_filter_skipped"]
    need += [f"applied_kind_{verb}_{cont}" for verb in c19_extra.VERBS for cont in c19_extra.CONTAINERS]
    need += ["shared_function_two_names_applied_2x", "shared_function_two_scopes_applied_2x", "shared_function_two_scopes_applied_1x",
             "unregister_of_unknown_function_with_hooks_registered", "observed_through_schema_include", "observed_through_schema_exclude",
             "order_pairs_judged", "order_pairs_across_scopes", "order_pairs_scope_order_against_definition_order", "graphql_histories"]
    for k in need:
        if not c.get(k):
            out.append(f"coverage counter {k} is zero")
    # guard of the reference matcher: the operations each filter of mc/c19_extra.py selects were also worked out by hand from the docs
    for name, spec in c19_extra.TERMS.items():
        got = sorted(f"{m} {p}" for m, p in OPS if own_filter_matches(spec, [m, p]))
        if got != sorted(c19_extra.EXPECTED_BY_HAND[name]):
            out.append(f"reference matcher disagrees with the hand-computed selection for filter {name!r}: {got}")
    if len(total.outcomes) < 2:
        out.append("a single outcome class")
    return out


TECHNIQUE = (
    "explicit-state breadth-first enumeration of every registration history up to the depth bound over the stated alphabet of real decorator "
    "forms, executed on the real HookDispatcher / AuthStorage objects (fresh schema, globals reset per history); per state one case per "
    "operation is generated from the real as_strategy along E1's default choice path; judged against a list-of-own-filters reference model"
)
LEVEL_TEXT = (
    "All histories of (un)registrations up to the stated depth over the stated alphabet are executed - none is sampled - and after each one "
    "the stored filter of every hook, the set of hooks that really ran for each operation, the registered set after unregistration and the "
    "authenticating provider are compared with a reference model that only knows each extension's own filter. The property quantifies over "
    "histories, which is exactly what is enumerated."
)
LEVEL_NOTE = (
    "Trusted: the reference matcher in this module (all documented conditions; cross-checked against a hand-computed table in vacuity()), "
    "E1's provider seam, and the re-creation of the global registration closure per history (guarded by sentinel histories). Not covered: "
    "histories deeper than the bound or using forms outside the alphabet, one function registered twice with different filters, "
    "registrations made after a schema was derived, GraphQL schemas, explicit headers=/auth= overriding providers, "
    "auth precedence beyond what set_on_case documents."
)
