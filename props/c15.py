"""C15 - with sanitisation on, secrets never appear in any output; off / custom lists change exactly that set.

Exhaustively enumerated configuration matrix (E2).  Two kinds of work item:

* ``cli``  - one execution of the real ``st run`` in a subprocess (``SCHEMATHESIS_HOOKS=mc.cli_hooks``: the scripted API is
  answered in-process, no socket).  Unique canaries are planted on every input route at once (distinct values), the API
  fails one check so that every channel has content, then every artefact (console, JUnit XML, VCR cassette, HAR file,
  ``Case.as_curl_command()`` taken in an ``after_call`` hook) is searched for every canary in raw / percent / base64
  form and parsed for the value shown next to each planted name.
* ``curl`` - ``Case.as_curl_command()`` called in-process for *every* default key and marker x spelling x location x config.

Review round 2 added (see detection/C15.md): an operation whose requests end in a network error without a response (hooks
module mc/c15_extra.py) in the hdr/auth/userinfo documents; a second ``Set-Cookie`` response header and a query name given
twice; the ``links`` group = stateful phase with an unresolvable link (multi-step scenario, "Failed to extract data from
response" history block); custom lists replaced by the empty list and the all-arguments ``configure`` + ``extend`` of the
documentation example; the message of the ``FailureGroup`` raised by ``Case.call_and_validate()`` as a further channel.

The oracle is written from the property text and the documented default key / marker lists (transcribed below); it never
calls the sanitiser.
"""

from __future__ import annotations

import base64
import json
import os
import shlex
import shutil
import subprocess
import sys
import tempfile
import xml.etree.ElementTree as ET
from pathlib import Path
from typing import Any, Iterable
from urllib.parse import parse_qsl, quote, unquote, urlsplit

from mc.runner import Result

ID = "C15"
LEVEL = "exploration"
ENGINES = ["E2"]
RULE = (
    "work item = one configuration point: (route group x key spelling x sanitisation config x phases x workers) executed once on "
    "the real `st run` CLI in a subprocess with a distinct canary on every route, or one in-process Case.as_curl_command() call "
    "carrying every default key/marker name in one spelling (plus, without URL userinfo, one Case.call_and_validate() against a 500 "
    "answer whose FailureGroup message is the channel `py_failure`); a judged point = (planted name, channel) whose value really was on "
    "the wire (request log of the adapter); distinct = distinct (group, spelling, config, route, name, channel)"
)
NETERR_GROUPS = ("hdr", "auth", "userinfo")  # groups whose document has the operation that ends in a network error
BOUNDS = {
    "quick": {"groups": ["hdr", "auth", "userinfo", "secgen"], "spellings": ["lower", "upper", "title", "swapsep"],
              "configs": ["on", "off"], "custom_configs": ["keys", "markers", "replacement", "extend"], "custom_groups": ["hdr", "auth"],
              "phases": ["fuzzing"], "workers": [1],
              # review round 2: stateful runs of the `links` document (multi-step scenario, "Failed to extract data" history block),
              # and the empty-list / all-arguments-at-once custom configurations on the header group
              "round2_runs": [["links", "lower", "on"], ["links", "title", "on"], ["links", "upper", "off"], ["links", "swapsep", "replacement"],
                              ["hdr", "title", "nokeys"], ["hdr", "upper", "nomarkers"], ["hdr", "lower", "both"]],
              "network_error_operation_in_groups": list(NETERR_GROUPS), "response_headers_with_two_values": ["set-cookie"],
              "userinfo_shapes": "plain | '@' in the password | '@' in the user | ':' in the password (as_curl: all; CLI: one run per non-plain shape)",
              "cli_runs": 50, "curl_spellings": 6, "curl_configs": 9, "curl_locations": 3, "curl_variants": 5},
    "thorough": {"groups": ["hdr", "auth", "userinfo", "secgen"],
                 "spellings": ["lower", "upper", "title", "alt", "swapsep", "swapsep_upper"],
                 "configs": ["on", "off", "keys", "markers", "replacement", "extend"],
                 "phases": ["fuzzing", "examples,coverage,fuzzing,stateful"], "workers": [1, 2],
                 "round2_configs": ["nokeys", "nomarkers", "both"], "round2_groups": ["links (stateful, every config x spelling)",
                                                                                      "hdr (round2_configs x spelling)"],
                 "network_error_operation_in_groups": list(NETERR_GROUPS), "response_headers_with_two_values": ["set-cookie"],
                 "userinfo_shapes": "plain | '@' in the password | '@' in the user | ':' in the password (as_curl: all; CLI: userinfo and links groups x on/off... per non-plain shape)",
                 "cli_runs": 476, "curl_spellings": 6, "curl_configs": 9, "curl_locations": 3, "curl_variants": 5},
}
BUDGET_S = {"quick": 140, "thorough": 2400}
CHUNK = 1
ASSUMPTIONS = [
    "'sensitive' = name equals (case-insensitively) one of the 42 documented default keys or contains one of the 8 default markers, "
    "plus URL userinfo and the Cookie/Set-Cookie/Authorization headers named in the property; lists transcribed in props/c15.py",
    "request and response *bodies* are outside the property (docs/sanitizing.rst says so) and are not searched",
    "presence with sanitisation off (and of non-sensitive names) is demanded only for values the adapter's request log shows on the wire",
    "custom key/marker/replacement lists are applied through the public schemathesis.sanitization.configure/extend from the hooks module "
    "(the CLI has no option for them)",
    "generated security values are judged by the value shown next to their name in every channel; substring search only for values of >= 8 characters",
    "one Hypothesis execution per run (--generation-deterministic): the inputs that are enumerated are configurations, not draws",
    "a network error is the exception requests raises for a refused connection, built from the real requests/urllib3 classes in "
    "mc/c15_extra.py (ConnectionError(MaxRetryError(pool, path?query, NewConnectionError))); nothing is demanded to be *shown* for that "
    "operation in console/JUnit (they print no request for an error), only that no sensitive value appears anywhere",
    "of two response headers with the same name the second value is demanded (sanitisation off / unconfigured name) in the VCR cassette "
    "only: a HAR record holds one value per header",
    "the base64 copy of URL userinfo that requests puts into the Authorization header is undecided (not judged) under a custom "
    "configuration whose lists do not name 'authorization' (config `both`); the userinfo inside every URL is still judged",
    "configure(keys_to_sanitize=[]) / configure(sensitive_markers=[]) replace the list by the empty list ('Replace configuration', "
    "docs/sanitizing.rst); configurations whose key list lacks 'cookie' are run on the CLI without request cookies and skipped for the "
    "cookies variant of call_and_validate (per-cookie gap = recorded finding KF-C15-4a..d)",
]
TECHNIQUE = ("exhaustive configuration-matrix enumeration on the real CLI (subprocess, in-process HTTP adapter loaded through "
             "SCHEMATHESIS_HOOKS) with canary secrets on every input route, judged by substring search over every encoded form and "
             "by the value displayed next to each planted name in each parsed artefact")
LEVEL_TEXT = (
    "Every point of the stated matrix (route group x spelling x config [x phases x workers]) is executed once on the real CLI and every "
    "artefact of every run is searched for every planted canary; Case.as_curl_command() and the failure message of "
    "Case.call_and_validate() are additionally run for every default key and marker in every spelling and location. Exhaustive over the stated matrix; not a proof about names, values or options outside it."
)
LEVEL_NOTE = ("Trusted: the in-process requests adapter (mc/httpseam.py) and the request log it writes. Not covered: secrets in bodies, "
              "GraphQL, pytest's own rendering (the FailureGroup message it prints is covered), names outside the default lists other than "
              "the stated custom ones, network errors other than a refused connection, redirects.")

ROOT = Path(__file__).resolve().parent.parent
HOST = "verif.local"

# ---------------------------------------------------------------------------------------------------------------------
# Specification data transcribed from docs/sanitizing.rst + the documented defaults (NOT imported from the code under test)

SPEC_KEYS = frozenset("""phpsessid xsrf-token _csrf _csrf_token _session _xsrf aiohttp_session api_key api-key apikey auth authorization
connect.sid cookie credentials csrf csrf_token csrf-token csrftoken ip_address mysql_pwd passwd password private_key private-key
privatekey remote_addr remote-addr secret session sessionid set_cookie set-cookie token x_api_key x-api-key x_csrftoken x-csrftoken
x_forwarded_for x-forwarded-for x_real_ip x-real-ip""".split())
SPEC_MARKERS = frozenset("token key secret password auth session passwd credential".split())
SPEC_REPLACEMENT = "[Filtered]"
assert len(SPEC_KEYS) == 42 and len(SPEC_MARKERS) == 8

# one name per marker that is not an exact key and contains no other marker
MARKER_ONLY = {"token": "x-refresh-token-v2", "key": "x-signing-key-id", "secret": "x-client-secret-v2", "password": "x-db-password-old",
               "auth": "x-oauth-state", "session": "x-session-handle", "passwd": "x-unix-passwd-hash", "credential": "x-my-credential-id"}
for _m, _n in MARKER_ONLY.items():
    assert _n not in SPEC_KEYS and [m for m in SPEC_MARKERS if m in _n] == [_m], _n

LIVE_HEADER, MOVABLE_HEADER = "x-ctl-live", "x-trace-id"      # never sensitive / becomes sensitive under custom configs
LIVE_QUERY, MOVABLE_QUERY = "liveq", "plainq"
LIVE_RESP, MOVABLE_RESP = "x-live-resp", "x-ctl-resp"
CONTROL_COOKIE = "plainc"

CUSTOM = {
    # config name -> (calls made through the public API in the hooks module)
    "keys": {"configure": {"keys_to_sanitize": ["X-Trace-Id", "PlainQ"]}},
    "markers": {"configure": {"sensitive_markers": ["Trace"]}},
    "replacement": {"configure": {"replacement": "REDACTED-7"}},
    "extend": {"extend": {"keys_to_sanitize": ["X-Ctl-Resp"], "sensitive_markers": ["Plain"]}},
    # review round 2: a list replaced by the EMPTY list (then only the other list decides), and the shape of the example in
    # docs/sanitizing.rst: all three arguments in one `configure` call followed by `extend` of both lists
    "nokeys": {"configure": {"keys_to_sanitize": []}},
    "nomarkers": {"configure": {"sensitive_markers": []}},
    "both": {"configure": {"replacement": "[Custom]", "keys_to_sanitize": ["X-Trace-Id"], "sensitive_markers": ["Plain"]},
             "extend": {"keys_to_sanitize": ["X-Ctl-Resp"], "sensitive_markers": ["Password"]}},
}
CURL_CONFIGS = ["on", "off", "keys", "markers", "replacement", "extend", "nokeys", "nomarkers", "both"]
# configurations whose exact-key list lacks `cookie`: on the CLI they are run without request cookies (the per-cookie gap under
# such a list is the recorded finding KF-C15-4a..d, keyed to config `keys`; it is not enumerated again under other names)
NO_COOKIE_KEY = {"nokeys", "both"}
SPELLINGS = ["lower", "upper", "title", "alt", "swapsep", "swapsep_upper"]
CHANNELS = ["console", "junit", "vcr", "har", "curl_hook"]


def effective(config: str) -> tuple[bool, frozenset, frozenset, str]:
    """(sanitise on?, keys, markers, replacement) that the property prescribes for a configuration name."""
    keys, markers, repl = SPEC_KEYS, SPEC_MARKERS, SPEC_REPLACEMENT
    if config == "off":
        return False, keys, markers, repl
    calls = CUSTOM.get(config, {})
    c = calls.get("configure", {})
    if "keys_to_sanitize" in c:
        keys = frozenset(k.lower() for k in c["keys_to_sanitize"])
    if "sensitive_markers" in c:
        markers = frozenset(k.lower() for k in c["sensitive_markers"])
    if "replacement" in c:
        repl = c["replacement"]
    e = calls.get("extend", {})
    keys = keys | frozenset(k.lower() for k in e.get("keys_to_sanitize", []))
    markers = markers | frozenset(k.lower() for k in e.get("sensitive_markers", []))
    return True, keys, markers, repl


def name_matches(name: str, keys: frozenset, markers: frozenset) -> bool:
    n = name.lower()
    return n in keys or any(m in n for m in markers)


def name_class(name: str) -> str:
    n = name.lower()
    k, m = n in SPEC_KEYS, any(x in n for x in SPEC_MARKERS)
    return "key+marker" if k and m else "key" if k else "marker" if m else "none"


def spell(name: str, how: str) -> str:
    if how.startswith("swapsep"):
        name = name.translate(str.maketrans("-_", "_-"))
        how = "upper" if how.endswith("upper") else "lower"
    if how == "lower":
        return name.lower()
    if how == "upper":
        return name.upper()
    out, flag = [], True
    if how == "title":
        for ch in name.lower():
            out.append(ch.upper() if flag else ch)
            flag = not ch.isalnum()
        return "".join(out)
    if how == "alt":
        flag = False
        for ch in name.lower():
            if ch.isalpha():
                out.append(ch.upper() if flag else ch)
                flag = not flag
            else:
                out.append(ch)
        return "".join(out)
    raise ValueError(how)


# ---------------------------------------------------------------------------------------------------------------------
# Plans


def _value(prefix: str, tag: str, n: int) -> str:
    # fixed width => no canary is a prefix of another; "!" is percent-encoded in URLs, so raw and percent forms differ
    return f"{prefix}_{tag}_{n:03d}!z"


class Plan:
    def __init__(self, item: dict) -> None:
        self.item = item
        self.secrets: list[dict] = []
        self.argv: list[str] = []
        self.n = 0

    def plant(self, route: str, loc: str, name: str, tag: str, *, control: str | None = None, **extra: Any) -> dict:
        self.n += 1
        s = {"route": route, "loc": loc, "name": name, "value": _value("CONTROL" if control else "CANARY", tag, self.n),
             "control": control, "source": "argv" if route.startswith("-") or route == "userinfo" else "response", **extra}
        self.secrets.append(s)
        return s


USERINFO_SHAPES = ("plain", "at", "at_user", "colon")


def userinfo_credentials(secret: dict, shape: str) -> str:
    """`user:password` text for the URL (delimiters inside it left unencoded, as a user types them); updates the secret in place.
    RFC 3986 / urlsplit / requests / curl: userinfo ends at the LAST '@' of the authority, the user at the FIRST ':'."""
    v = secret["value"]
    if shape == "at":
        head, tail = v[:-2] + "H", "T" + v
        secret["value"] = f"{head}@{tail}"
        secret["fragments"] = [head, tail[:-2]]
    elif shape == "colon":
        head, tail = v[:-2] + "H", "T" + v
        secret["value"] = f"{head}:{tail}"
        secret["fragments"] = [head, tail[:-2]]
    elif shape == "at_user":
        secret["user"] = "user@corp.example"
    secret["stem"] = shape in ("plain", "at_user")
    return f"{secret['user']}:{secret['value']}"


HEADER_KEYS = sorted(SPEC_KEYS - {"cookie"})
QUERY_KEYS = ["api_key", "api-key", "apikey", "token", "password", "secret", "auth", "session", "csrf_token", "private_key", "credentials",
              "passwd"]
COOKIE_KEYS = ["sessionid", "csrftoken", "phpsessid", "token", "connect.sid", MARKER_ONLY["session"]]
RESP_KEYS = ["x-auth-token", "x-csrftoken", "x-api-key", "token", MARKER_ONLY["token"], MARKER_ONLY["credential"]]


def _dedupe(names: Iterable[str]) -> list[str]:
    seen, out = set(), []
    for n in names:
        if n.lower() not in seen:
            seen.add(n.lower())
            out.append(n)
    return out


def build(item: dict) -> tuple[Plan, dict, dict]:
    """-> (plan with argv + planted secrets, OpenAPI document, scenario for mc.cli_hooks)"""
    group, how, config = item["group"], item["spelling"], item["config"]
    plan = Plan(item)
    sp = lambda n: spell(n, how)  # noqa: E731
    header_params: list[str] = []
    query_params: list[str] = []
    cookie_params: list[str] = []
    argv: list[str] = []
    base_url = f"http://{HOST}"

    hdr_names = _dedupe([sp(n) for n in HEADER_KEYS + sorted(MARKER_ONLY.values())])
    if group in ("userinfo", "links"):
        hdr_names = _dedupe([sp(n) for n in ("x-api-key", "token", MARKER_ONLY["secret"])])
    if group == "secgen":
        hdr_names = []
    hdr_controls = [(sp(LIVE_HEADER), "live"), (sp(MOVABLE_HEADER), "movable")]
    if group in ("hdr", "userinfo", "secgen", "links"):
        for name in hdr_names:
            if name.lower() == "authorization":
                if group != "hdr":
                    continue
                s = plan.plant("-H", "req_header", name, "h", prefix="Bearer ")
                argv += ["-H", f"{name}: Bearer {s['value']}"]
            else:
                s = plan.plant("-H", "req_header", name, "h")
                argv += ["-H", f"{name}: {s['value']}"]
        for name, kind in hdr_controls:
            s = plan.plant("-H", "req_header", name, "h", control=kind)
            argv += ["-H", f"{name}: {s['value']}"]
    elif group == "auth":
        s = plan.plant("--auth", "basic_auth", "Authorization", "a", user="user")
        argv += ["--auth", f"user:{s['value']}"]
        for name in hdr_names:
            if name.lower() == "authorization":
                continue
            s = plan.plant("--set-header", "req_header", name, "sh")
            header_params.append(name)
            argv += ["--set-header", f"{name}={s['value']}"]
        for name, kind in hdr_controls:
            s = plan.plant("--set-header", "req_header", name, "sh", control=kind)
            header_params.append(name)
            argv += ["--set-header", f"{name}={s['value']}"]
    if group in ("userinfo", "links"):
        s = plan.plant("userinfo", "userinfo", "<userinfo>", "u", user="user")
        base_url = f"http://{userinfo_credentials(s, item.get('userinfo_shape', 'plain'))}@{HOST}"

    q_names = _dedupe([sp(n) for n in QUERY_KEYS + sorted(MARKER_ONLY.values())]) if group != "secgen" else []
    for name in q_names:
        s = plan.plant("--set-query", "req_query", name, "q")
        query_params.append(name)
        argv += ["--set-query", f"{name}={s['value']}"]
    for name, kind in ((sp(LIVE_QUERY), "live"), (sp(MOVABLE_QUERY), "movable")):
        s = plan.plant("--set-query", "req_query", name, "q", control=kind)
        query_params.append(name)
        argv += ["--set-query", f"{name}={s['value']}"]
    if group in ("hdr", "auth") and not item.get("nocookies"):
        for name in _dedupe([sp(n) for n in COOKIE_KEYS]) + [sp(CONTROL_COOKIE)]:
            s = plan.plant("--set-cookie", "req_cookie", name, "c", control="cookie" if name.lower() == CONTROL_COOKIE else None)
            cookie_params.append(name)
            argv += ["--set-cookie", f"{name}={s['value']}"]

    # response headers of the scripted API
    resp_headers: list[list[str]] = []
    s = plan.plant("response_set_cookie", "resp_header", sp("set-cookie"), "rc", cookie="sid")
    resp_headers.append([s["name"], f"sid={s['value']}; Path=/"])
    # a SECOND header of the same name (the usual shape of Set-Cookie): the cassette lists every value of a header, the HAR
    # format has one value per record, so the presence of the second value is demanded in the VCR cassette only
    s = plan.plant("response_set_cookie_2nd", "resp_header", sp("set-cookie"), "rc", cookie="sid2", printed=["vcr"])
    resp_headers.append([s["name"], f"sid2={s['value']}; Path=/; HttpOnly"])
    for name in _dedupe([sp(n) for n in RESP_KEYS]):
        s = plan.plant("response_header", "resp_header", name, "r")
        resp_headers.append([name, s["value"]])
    for name, kind in ((sp(LIVE_RESP), "live"), (sp(MOVABLE_RESP), "movable")):
        s = plan.plant("response_header", "resp_header", name, "r", control=kind)
        resp_headers.append([name, s["value"]])

    parameters = ([{"name": n, "in": "header", "required": True, "schema": {"type": "string"}} for n in header_params]
                  + [{"name": n, "in": "query", "required": True, "schema": {"type": "string"}} for n in query_params]
                  + [{"name": n, "in": "cookie", "required": True, "schema": {"type": "string"}} for n in cookie_params])
    op = lambda **kw: {"get": {"parameters": parameters, "responses": {"200": {"description": "ok"}}, **kw}}  # noqa: E731
    doc: dict[str, Any] = {"openapi": "3.0.2", "info": {"title": "c15", "version": "1"}, "paths": {"/ok": op(), "/fail": op()}}
    routes: dict[str, Any] = {"/fail": {"status": 500, "headers": resp_headers, "body": "{\"error\": 1}"}}
    default: dict[str, Any] = {"status": 200, "headers": resp_headers, "body": "{}"}
    generated: list[dict] = []
    if group in NETERR_GROUPS:
        # a third operation whose every request ends in a network error (no response at all): ERRORS section of the console,
        # <error> in JUnit, `response: null` in the cassette, the no-response entry of the HAR file
        doc["paths"]["/neterr"] = op()
        routes["/neterr"] = {"raise": "connection"}
    if group == "links":
        # stateful phase: POST /users -> 201 -> link to GET /users/{id} whose `id` cannot be taken from the response body, so the
        # console also prints the "Failed to extract data from response" block with the curl line of the *previous* step;
        # GET /users/<anything> answers 500, which gives the FAILURES block / JUnit failure of a multi-step scenario
        link = {"operationId": "getUser", "parameters": {"id": "$response.body#/id"}}
        doc["paths"] = {
            "/users": {"post": {"parameters": parameters, "responses": {"201": {"description": "ok", "links": {"get": link}}}}},
            "/users/{id}": {"get": {"operationId": "getUser", "responses": {"200": {"description": "ok"}},
                                    "parameters": [{"name": "id", "in": "path", "required": True, "schema": {"type": "string"}}, *parameters]}},
        }
        routes = {"/users": {"status": 201, "headers": resp_headers, "body": "{\"nope\": 1}"}}
        default = {"status": 500, "headers": resp_headers, "body": "{\"error\": 1}"}
    if group == "secgen":
        kh, kq, kc = sp("x-api-key"), sp("api_key"), sp("sessionid")
        doc["components"] = {"securitySchemes": {
            "KeyH": {"type": "apiKey", "in": "header", "name": kh}, "KeyQ": {"type": "apiKey", "in": "query", "name": kq},
            "KeyC": {"type": "apiKey", "in": "cookie", "name": kc}, "Basic": {"type": "http", "scheme": "basic"},
            "Bearer": {"type": "http", "scheme": "bearer"}}}
        doc["paths"] = {
            "/ok": op(),
            "/fail_keyh": op(security=[{"KeyH": []}]),
            "/fail_keyq": op(security=[{"KeyQ": []}]),
            "/fail_keyc": op(security=[{"KeyC": []}]),
            "/fail_basic": op(security=[{"Basic": []}]),
            "/fail_bearer": op(security=[{"Bearer": []}]),
        }

        def failing(where: str, name: str, min_len: int) -> dict:
            # fails only for a non-trivial generated value, so that the displayed failing case carries one
            return {"status": 500, "else_status": 200, "headers": resp_headers, "body": "{\"error\": 1}",
                    "only_if": [{"in": where, "name": name, "min_len": min_len}]}

        routes = {
            "/fail_keyh": failing("header", kh, 3), "/fail_keyq": failing("query", kq, 3), "/fail_keyc": failing("cookie", kc, 3),
            "/fail_basic": failing("header", "Authorization", 6 + 4), "/fail_bearer": failing("header", "Authorization", 7 + 3),
        }
        generated = [
            {"route": "generated_apikey_header", "loc": "req_header", "name": kh, "path": "/fail_keyh"},
            {"route": "generated_apikey_query", "loc": "req_query", "name": kq, "path": "/fail_keyq"},
            {"route": "generated_apikey_cookie", "loc": "req_cookie", "name": kc, "path": "/fail_keyc"},
            {"route": "generated_basic", "loc": "req_header", "name": "Authorization", "path": "/fail_basic", "prefix": "Basic "},
            {"route": "generated_bearer", "loc": "req_header", "name": "Authorization", "path": "/fail_bearer", "prefix": "Bearer "},
        ]
    scenario: dict[str, Any] = {"host": HOST, "routes": routes, "default": default}
    if config in CUSTOM:
        scenario["sanitization"] = CUSTOM[config]
    plan.argv = ["--url", base_url, *argv]
    if config == "off":
        plan.argv += ["--output-sanitize", "false"]
    plan.argv += ["--phases", item["phases"], "--workers", str(item["workers"]), "--max-examples", str(item["max_examples"]),
                  "--generation-deterministic", "--no-color"]
    plan.generated = generated  # type: ignore[attr-defined]
    return plan, doc, scenario


# ---------------------------------------------------------------------------------------------------------------------
# Work items


RUN_ENV = "VERIF_C15_RUN"


def items(tier: str, seed: int) -> list[dict]:
    # called in the parent before the pool forks: names the run, so that `finalize` can remove the temp dirs of workers
    # that the runner terminated at its time cap
    os.environ[RUN_ENV] = str(os.getpid())
    b = BOUNDS[tier]
    out: list[dict] = []
    # in-process as_curl_command(): full key/marker x spelling x config matrix
    for config in CURL_CONFIGS:
        for how in SPELLINGS:
            out.append({"kind": "curl", "spelling": how, "config": config})
    seen = set()

    def add(group: str, how: str, config: str, phases: str, workers: int) -> None:
        key = (group, how, config, phases, workers)
        if key not in seen:
            seen.add(key)
            it = {"kind": "cli", "group": group, "spelling": how, "config": config, "phases": phases, "workers": workers,
                  "max_examples": 10 if group == "secgen" else 2}
            if config in NO_COOKIE_KEY and group in ("hdr", "auth"):
                it["nocookies"] = True
            out.append(it)

    if tier == "quick":
        for config in b["configs"]:
            for how in b["spellings"]:
                for group in b["groups"]:
                    add(group, how, config, "fuzzing", 1)
        for k, config in enumerate(b["custom_configs"]):
            for j, group in enumerate(b["custom_groups"]):
                add(group, b["spellings"][(k + j) % len(b["spellings"])], config, "fuzzing", 1)
        for group, how, config in b["round2_runs"]:
            add(group, how, config, "stateful" if group == "links" else "fuzzing", 1)
        for shape in USERINFO_SHAPES[1:]:
            out.append({"kind": "cli", "group": "userinfo", "spelling": b["spellings"][0], "config": "on", "phases": "fuzzing",
                        "workers": 1, "max_examples": 2, "userinfo_shape": shape})
    else:
        for phases, workers in [(b["phases"][0], 1), (b["phases"][1], 1), (b["phases"][0], 2)]:
            for config in b["configs"]:
                for how in b["spellings"]:
                    for group in b["groups"]:
                        if (phases, workers) != (b["phases"][0], 1) and how in ("alt", "swapsep_upper") and config not in ("on", "off"):
                            continue  # the two extra spellings x custom configs only in the base variant
                        add(group, how, config, phases, workers)
        for how in b["spellings"]:
            for config in b["round2_configs"]:
                add("hdr", how, config, b["phases"][0], 1)
            for config in b["configs"] + b["round2_configs"]:
                add("links", how, config, "stateful", 1)
        for shape in USERINFO_SHAPES[1:]:
            for config in b["configs"]:
                for group in ("userinfo", "links"):
                    out.append({"kind": "cli", "group": group, "spelling": b["spellings"][0], "config": config,
                                "phases": "stateful" if group == "links" else b["phases"][0], "workers": 1, "max_examples": 2,
                                "userinfo_shape": shape})
    return out


# ---------------------------------------------------------------------------------------------------------------------
# Executing one CLI run


def run_cli(item: dict) -> tuple[Plan, dict]:
    plan, doc, scenario = build(item)
    work = Path(tempfile.mkdtemp(prefix=f"verif-c15-{os.environ.get(RUN_ENV, 'x')}-"))
    try:
        (work / "schema.json").write_text(json.dumps(doc))
        scenario["log"] = str(work / "requests.jsonl")
        scenario["curl_log"] = str(work / "curl.jsonl")
        (work / "scenario.json").write_text(json.dumps(scenario))
        (work / "rep").mkdir()
        env = dict(os.environ)
        # the module is found through PYTHONPATH; whatever the parent has there (a scratch copy of the sources when a
        # mutant is being tried) stays in front of site-packages
        env["PYTHONPATH"] = os.pathsep.join([p for p in (str(ROOT), os.environ.get("PYTHONPATH", "")) if p])
        env["SCHEMATHESIS_HOOKS"] = "mc.c15_extra"  # = mc.cli_hooks + routes that end in a network error
        env["VERIF_CLI_SCENARIO"] = str(work / "scenario.json")
        env["PYTHONHASHSEED"] = "0"
        env["COLUMNS"] = "400"
        env["PYTHONIOENCODING"] = "utf-8"
        env.pop("SCHEMATHESIS_BASE_URL", None)
        st = str(Path(sys.executable).parent / "st")  # argv[0] must end with "st": the cassette records the command line
        argv = [st, "run", str(work / "schema.json"), *plan.argv, "--report", "junit,vcr,har", "--report-dir", str(work / "rep")]
        try:
            proc = subprocess.run(argv, env=env, cwd=str(work), stdout=subprocess.PIPE, stderr=subprocess.STDOUT, timeout=180)
            console, code = proc.stdout.decode("utf-8", "replace"), proc.returncode
        except subprocess.TimeoutExpired as exc:
            console, code = (exc.stdout or b"").decode("utf-8", "replace"), -999

        def read(p: Path) -> str | None:
            return p.read_text("utf-8", "replace") if p.exists() else None

        log = [json.loads(line) for line in (read(work / "requests.jsonl") or "").splitlines() if line.strip()]
        curls = [json.loads(line) for line in (read(work / "curl.jsonl") or "").splitlines() if line.strip()]
        art = {"console": console, "exit": code, "junit": read(work / "rep" / "junit.xml"), "vcr": read(work / "rep" / "vcr.yaml"),
               "har": read(work / "rep" / "har.json"), "curl_hook": "\n".join(c["curl"] for c in curls), "log": log,
               "argv": [a.replace(str(work), "<work>") for a in argv]}
        return plan, art
    finally:
        shutil.rmtree(work, ignore_errors=True)


# ---------------------------------------------------------------------------------------------------------------------
# Searching artefacts


def b64_fragments(data: bytes) -> list[str]:
    """Substrings that any base64 text containing `data` (at any alignment) must contain."""
    out = []
    for off in range(3):
        enc = base64.b64encode(b"\0" * off + data).decode()
        lead = 0 if off == 0 else 4
        tail = len(enc) - (4 if (off + len(data)) % 3 else 0)
        frag = enc[lead:tail]
        if len(frag) >= 12:
            out.append(frag)
    return out


def forms_of(secret: dict) -> list[tuple[str, str]]:
    """(encoding, needle) - most specific first."""
    v = secret["value"]
    out = [("raw", v)]
    p = quote(v, safe="")
    if p != v:
        out.append(("percent", p))
    if secret.get("stem", True) and v.endswith("!z"):
        out.append(("partial", v[:-2]))
    for frag in secret.get("fragments", ()):
        # a secret that contains a URL delimiter ('@', ':'): each side on its own is still part of the secret
        out.append(("partial", frag))
    if secret.get("user"):
        out.append(("base64", base64.b64encode(f"{secret['user']}:{v}".encode()).decode()))
    for frag in b64_fragments(v.encode("utf-8", "replace")):
        out.append(("base64", frag))
    return out


def vcr_places(text: str) -> list[str]:
    places, sec, sub = [], "top", ""
    for i, line in enumerate(text.split("\n")):
        if i == 0 and line.startswith("command:"):
            places.append("command_line")
            continue
        if line.startswith("- id:"):
            sec, sub = "interaction", ""
        elif line.startswith("  request:"):
            sec, sub = "request", ""
        elif line.startswith("  response:"):
            sec, sub = "response", ""
        elif line.startswith("    uri:"):
            sub = "uri"
        elif line.startswith("    headers:"):
            sub = "headers"
        elif line.startswith("    body:"):
            sub = "body"
        elif line.startswith("    status:") or line.startswith("    method:") or line.startswith("    http_version:"):
            sub = "meta"
        places.append(f"{sec}_{sub}" if sub else sec)
    return places


def har_place(text: str, needle: str) -> str:
    try:
        data = json.loads(text)
    except ValueError:
        return "unparsed"

    def walk(obj: Any, path: str) -> str | None:
        if isinstance(obj, str):
            return path if needle in obj else None
        if isinstance(obj, dict):
            for k, v in obj.items():
                r = walk(v, f"{path}.{k}" if path else k)
                if r:
                    return r
        if isinstance(obj, list):
            for v in obj:
                r = walk(v, path)
                if r:
                    return r
        return None

    found = walk(data, "") or "other"
    for prefix in ("log.entries.",):
        if found.startswith(prefix):
            found = found[len(prefix):]
    return found.rsplit(".", 1)[0] if found.endswith((".value", ".name", ".text")) else found


def line_place(line: str) -> str:
    if "Base URL:" in line:
        return "base_url_line"
    if "curl -X" in line:
        # "[201] curl -X POST ..." = a previous step in the stateful "Failed to extract data from response" block
        head = line.strip()
        return "history_curl" if head[:1] == "[" and head[1:4].isdigit() and head[4:5] == "]" else "curl"
    if "Traceback" in line or line.startswith("  File "):
        return "traceback"
    return "other"


def find(channel: str, text: str, secret: dict) -> list[tuple[str, str]]:
    """All (encoding, place) at which the secret is visible in the artefact (one entry per distinct pair)."""
    hits: list[tuple[str, str]] = []
    best_seen = False
    for enc, needle in forms_of(secret):
        if enc == "partial" and best_seen:
            continue  # the stem is only reported when neither the raw nor the percent form is there
        if needle not in text:
            continue
        if enc in ("raw", "percent"):
            best_seen = True
        if channel == "vcr":
            pl = vcr_places(text)
            places = {pl[i] for i, line in enumerate(text.split("\n")) if needle in line}
        elif channel == "har":
            places = {har_place(text, needle)}
        else:
            places = {line_place(line) for line in text.split("\n") if needle in line}
        for p in sorted(places):
            if (enc, p) not in hits:
                hits.append((enc, p))
    return hits


def parse_curl(command: str) -> dict | None:
    try:
        parts = shlex.split(command.strip())
    except ValueError:
        return None
    if not parts or parts[0] != "curl":
        return None
    headers: list[tuple[str, str]] = []
    i, url = 1, None
    while i < len(parts):
        if parts[i] == "-H" and i + 1 < len(parts):
            k, _, v = parts[i + 1].partition(":")
            headers.append((k.strip(), v.strip()))
            i += 2
        elif parts[i] in ("-X", "-d") and i + 1 < len(parts):
            i += 2
        elif parts[i].startswith("-"):
            i += 1
        else:
            url = parts[i]
            i += 1
    return {"headers": headers, "url": url or ""}


def url_parts(url: str) -> tuple[str, list[tuple[str, str]]]:
    """(userinfo or '', query pairs) without urlsplit's host validation."""
    rest = url.split("://", 1)[-1]
    authority = rest.split("/", 1)[0].split("?", 1)[0]
    userinfo = authority.rsplit("@", 1)[0] if "@" in authority else ""
    query = url.split("?", 1)[1].split("#", 1)[0] if "?" in url else ""
    return unquote(userinfo), parse_qsl(query, keep_blank_values=True)


def shown_values(channel: str, text: str) -> list[dict] | None:
    """Every (kind, name, value) the artefact displays: request/response header, query pair, userinfo.  None = unparsable."""
    out: list[dict] = []

    def add_url(url: str) -> None:
        userinfo, query = url_parts(url)
        if userinfo:
            out.append({"kind": "userinfo", "name": "<userinfo>", "value": userinfo})
        for k, v in query:
            out.append({"kind": "req_query", "name": k, "value": v})

    if channel in ("console", "junit", "curl_hook", "as_curl", "py_failure"):
        if channel == "junit":
            try:
                root = ET.fromstring(text)
            except ET.ParseError:
                return None
            text = "\n".join((el.get("message") or "") + "\n" + (el.text or "") for el in root.iter() if el.tag in ("failure", "error"))
        for line in text.split("\n"):
            if "curl -X" not in line:
                continue
            parsed = parse_curl(line[line.index("curl -X"):])
            if parsed is None:
                return None
            for k, v in parsed["headers"]:
                out.append({"kind": "req_header", "name": k, "value": v})
            add_url(parsed["url"])
        return out
    if channel == "vcr":
        import yaml

        try:
            data = yaml.safe_load(text)
        except yaml.YAMLError:
            return None
        for it in (data or {}).get("http_interactions") or []:
            req = it.get("request") or {}
            for k, vs in (req.get("headers") or {}).items():
                for v in vs:
                    out.append({"kind": "req_header", "name": k, "value": v})
            add_url(req.get("uri") or "")
            for k, vs in ((it.get("response") or {}).get("headers") or {}).items():
                for v in vs:
                    out.append({"kind": "resp_header", "name": k, "value": v})
        return out
    if channel == "har":
        try:
            data = json.loads(text)
        except ValueError:
            return None
        for e in data["log"]["entries"]:
            for h in e["request"].get("headers", []):
                out.append({"kind": "req_header", "name": h["name"], "value": h["value"]})
            add_url(e["request"].get("url", ""))
            for q in e["request"].get("queryString", []):
                out.append({"kind": "req_query", "name": q["name"], "value": q["value"]})
            for c in e["request"].get("cookies", []):
                out.append({"kind": "req_cookie", "name": c["name"], "value": c["value"]})
            for h in e["response"].get("headers", []):
                out.append({"kind": "resp_header", "name": h["name"], "value": h["value"]})
            for c in e["response"].get("cookies", []):
                out.append({"kind": "resp_cookie", "name": c["name"], "value": c["value"]})
        return out
    raise ValueError(channel)


# ---------------------------------------------------------------------------------------------------------------------
# Oracle

# where a request / response part is printed when nothing hides it
PRINTED = {
    "req_header": {"console", "junit", "vcr", "har", "curl_hook", "as_curl", "py_failure"},
    "req_query": {"console", "junit", "vcr", "har", "curl_hook", "as_curl", "py_failure"},
    "req_cookie": {"console", "junit", "vcr", "har", "curl_hook", "as_curl", "py_failure"},
    "userinfo": {"console", "junit", "vcr", "har", "curl_hook", "as_curl"},
    "basic_auth": {"console", "junit", "vcr", "har", "curl_hook"},
    "resp_header": {"vcr", "har"},
}
FAILING_ONLY = {"console", "junit", "py_failure"}  # channels that show the failing case only


def is_sensitive(secret: dict, keys: frozenset, markers: frozenset) -> bool | None:
    """True / False, or None = the property text leaves it open (never judged either way)."""
    loc = secret["loc"]
    if loc == "userinfo":
        return True  # named by the property, independent of any list
    if loc == "req_cookie":
        if name_matches(secret["name"], keys, markers):
            return True
        # a cookie whose own name matches nothing, inside a `Cookie` header that is itself a configured key: the text names
        # both "Cookie" and "anything whose name matches"; implementations differ per channel -> undecided
        return None if name_matches("cookie", keys, markers) else False
    if loc == "resp_header" and secret.get("cookie"):
        return name_matches(secret["name"], keys, markers) or name_matches(secret["cookie"], keys, markers)
    return name_matches(secret["name"], keys, markers)


def carried(record: dict, secret: dict) -> bool:
    loc, v = secret["loc"], secret["value"]
    headers = {k.lower(): val for k, val in record["headers"].items()}
    if loc == "req_header":
        return headers.get(secret["name"].lower()) == secret.get("prefix", "") + v
    if loc == "basic_auth":
        return headers.get("authorization") == "Basic " + base64.b64encode(f"{secret['user']}:{v}".encode()).decode()
    if loc == "req_query":
        return [secret["name"], v] in [list(q) for q in record["query"]]
    if loc == "req_cookie":
        return f"{secret['name']}={v}" in [c.strip() for c in headers.get("cookie", "").split(";")]
    if loc == "userinfo":
        return f":{v}@" in record["url"]
    return loc == "resp_header"


def facts(secret: dict, channel: str, item: dict) -> dict:
    n = secret["name"]
    return {"route": secret["route"], "source": secret["source"], "channel": channel, "config": item["config"],
            "name_case": "lower" if n == n.lower() else "not_lower"}


def judge(res: Result, item: dict, secrets: list[dict], art: dict, channels: list[str], log: list[dict] | None) -> None:
    on, keys, markers, repl = effective(item["config"])
    detail_base = {"item": item, "run_argv": art.get("argv")}
    shown = {}
    for ch in channels:
        text = art.get(ch)
        shown[ch] = shown_values(ch, text) if text else None
        if text and shown[ch] is None:
            res.count(f"unparsable_{ch}")
    failing = [r for r in (log or []) if r["status"] >= 500]
    for s in secrets:
        sens = is_sensitive(s, keys, markers) if on else False
        if sens is None:
            res.count("undecided_cookie_with_plain_name")
            continue
        printed = set(s.get("printed") or PRINTED[s["loc"]])
        for ch in channels:
            text = art.get(ch)
            if not text:
                continue  # a dead channel is judged once per run, not per secret
            res.states += 1
            hits = find(ch, text, s)
            res.transitions += len(forms_of(s))
            if sens and s["loc"] == "userinfo" and not name_matches("authorization", keys, markers):
                # `requests` copies URL userinfo into an `Authorization: Basic <base64>` header.  Under a custom configuration whose
                # lists no longer name `authorization` (only `both` here) the text says both "URL userinfo is never shown" and
                # "the custom lists decide which headers are" - left open, like a plain-named cookie inside a listed Cookie header:
                # the base64 copy is not judged; the userinfo inside URLs (raw / percent form) still is.
                undecided = [h for h in hits if h[0] == "base64"]
                if undecided:
                    res.count("undecided_userinfo_copy_in_unlisted_authorization", len(undecided))
                    hits = [h for h in hits if h[0] != "base64"]
            f = facts(s, ch, item)
            if log is None:
                on_wire = True
            else:
                pool = failing if ch in FAILING_ONLY else log
                on_wire = any(carried(r, s) for r in pool)
            if sens:
                # (1) no encoded form anywhere in the artefact
                for enc, place in hits:
                    res.outcomes.add("leak")
                    res.violation({"kind": "secret_in_output", **f, "encoding": enc, "place": place},
                                  {**detail_base, "name": s["name"], "name_class": name_class(s["name"]), "value": s["value"],
                                   "excerpt": excerpt(text, s)})
                # (2) where the name is displayed, the redaction marker stands in for the value (covers what a substring search
                #     cannot see: truncated, re-encoded or blanked values)
                if not hits and shown[ch] is not None and ch in printed:
                    for entry in shown[ch]:
                        if not same_slot(entry, s):
                            continue
                        res.count("marker_slots_checked")
                        if repl not in entry["value"]:
                            res.outcomes.add("not_marked")
                            res.violation({"kind": "value_not_replaced_by_marker", **f},
                                          {**detail_base, "name": s["name"], "shown": entry["value"][:200], "expected_marker": repl})
                            break
                if not hits:
                    res.outcomes.add("hidden")
                    if on_wire:
                        res.nontriv([item["kind"], item.get("group"), item["spelling"], item["config"], s["route"], s["name"], ch])
                        res.count(f"hidden:{s['route']}")
            elif ch in printed:
                if not on_wire:
                    res.count(f"not_on_wire:{s['route']}")
                    continue
                visible = [h for h in hits if h[0] in ("raw", "percent") or (h[0] == "base64" and s.get("user"))]
                if visible:
                    res.outcomes.add("visible")
                    res.nontriv([item["kind"], item.get("group"), item["spelling"], item["config"], s["route"], s["name"], ch])
                    res.count(f"visible:{s['route']}")
                    if s.get("control") == "live":
                        res.count(f"live:{ch}:{s['loc']}")
                elif s.get("control") == "live":
                    res.oracle_errors.append({"error": f"live control {s['name']} missing in {ch}: the channel shows nothing, run is vacuous",
                                              "item": item, "console_tail": art.get("console", "")[-1500:]})
                else:
                    res.outcomes.add("over_redacted")
                    kind = "value_missing_with_sanitisation_off" if not on else "redacted_although_name_not_configured"
                    res.violation({"kind": kind, **f}, {**detail_base, "name": s["name"], "value": s["value"],
                                                        "shown": [e for e in (shown[ch] or []) if same_slot(entry=e, secret=s)][:3]})
    res.count("secrets_judged", len(secrets))


def same_slot(entry: dict, secret: dict) -> bool:
    loc = secret["loc"]
    if loc == "userinfo":
        return entry["kind"] == "userinfo"
    if loc == "basic_auth":
        return entry["kind"] == "req_header" and entry["name"].lower() == "authorization"
    if loc == "req_cookie":
        return entry["kind"] == "req_header" and entry["name"].lower() == "cookie"
    return entry["kind"] == loc and entry["name"].lower() == secret["name"].lower()


def excerpt(text: str, secret: dict) -> str:
    for _, needle in forms_of(secret):
        i = text.find(needle)
        if i >= 0:
            return text[max(0, i - 90): i + len(needle) + 40]
    return ""


def wire_slot_values(g: dict, log: list[dict]) -> list[str]:
    """Full values of the slot that carries generated route `g`, as the adapter received them (order of sending)."""
    out: list[str] = []
    for r in log:
        if r["path"] != g["path"]:
            continue
        headers = {k.lower(): v for k, v in r["headers"].items()}
        if g["loc"] == "req_header":
            v = headers.get(g["name"].lower())
        elif g["loc"] == "req_query":
            vs = [val for k, val in r["query"] if k == g["name"]]
            v = vs[0] if vs else None
        else:
            v = headers.get("cookie")
        if v is not None and v.startswith(g.get("prefix", "")) and v not in out:
            out.append(v)
    return out


def _secret_part(g: dict, full: str) -> str:
    v = full[len(g.get("prefix", "").strip()):].strip() if full.startswith(g.get("prefix", "").strip()) else full
    if g["loc"] == "req_cookie":
        v = v.split("=", 1)[-1]
    return v


def generated_secrets(plan: Plan, log: list[dict]) -> list[dict]:
    """Generated values that are long and plain enough for a substring search (the slot check covers the others)."""
    out = []
    for g in getattr(plan, "generated", []):
        for full in wire_slot_values(g, log):
            v = full[len(g.get("prefix", "")):]
            if g["loc"] == "req_cookie":
                v = v.split("=", 1)[-1]
            if len(v) >= 8 and len(set(v)) >= 4 and v.isascii() and v.isalnum():
                out.append({"route": g["route"], "loc": g["loc"], "name": g["name"], "value": v, "prefix": g.get("prefix", ""),
                            "control": None, "source": "generated", "stem": False})
    return out


def check_cli(item: dict) -> Result:
    res = Result()
    plan, art = run_cli(item)
    res.evaluations += 1
    res.traces += 1
    log = art["log"]
    console = art["console"]
    # the run must have done what the matrix point says: requests on the wire, one failed check, a FAILURES section
    if art["exit"] != 1 or "FAILURES" not in console or not any(r["status"] >= 500 for r in log):
        res.oracle_errors.append({"error": "CLI run did not produce the scripted failure", "exit": art["exit"], "item": item,
                                  "console_tail": console[-2500:]})
        return res
    on, keys, markers, repl = effective(item["config"])
    # dead channels
    channels = []
    for ch in CHANNELS:
        text = art.get(ch)
        dead = not text or (ch == "har" and har_place(text, "\0") == "unparsed")
        if dead:
            res.outcomes.add("channel_dead")
            cause = "ValueError_in_writer_thread" if "Exception in thread SchemathesisCassetteWriter" in console and "ValueError" in console \
                else "writer_thread_exception" if "Exception in thread" in console else "unknown"
            res.violation({"kind": "artefact_destroyed", "channel": ch, "config": item["config"], "group": item["group"], "cause": cause},
                          {"item": item, "run_argv": art["argv"], "size": len(text or ""), "console_excerpt": console[console.find("Exception in thread"):][:1800]})
        else:
            channels.append(ch)
            res.count(f"channel_alive:{ch}")
    gen = generated_secrets(plan, log)
    res.count("generated_values_searched", len(gen))
    judge(res, item, plan.secrets, art, channels, log)
    judge_generated(res, item, plan, gen, art, channels, log)
    flows(res, item, plan, art, channels, log)
    if len(res.samples) < 2:
        res.samples.append({"item": item, "argv_len": len(art["argv"]), "requests": len(log), "secrets": len(plan.secrets),
                            "first_secret": plan.secrets[0], "channels_alive": channels})
    return res


def flows(res: Result, item: dict, plan: Plan, art: dict, channels: list[str], log: list[dict]) -> None:
    """Review round 2: the run must really have gone through the flows its group is there for (network error without a
    response; multi-step stateful scenario with the history block).  Judging is done by `judge` over the whole artefacts; this
    only counts, per channel, that the flow left content there (read by `vacuity`), and reports a run without it as a broken
    run, never as a pass."""
    console = art["console"]
    live = next(s for s in plan.secrets if s.get("control") == "live" and s["loc"] == "req_header")["value"]
    if item["group"] in NETERR_GROUPS:
        if not any(r["status"] == 0 and r["path"] == "/neterr" for r in log) or "Network Error" not in console:
            res.oracle_errors.append({"error": "the operation scripted to end in a network error did not", "item": item,
                                      "console_tail": console[-2500:]})
            return
        res.count("neterr:console")
        if "junit" in channels:
            try:
                if any(el.tag == "error" for el in ET.fromstring(art["junit"]).iter()):
                    res.count("neterr:junit")
            except ET.ParseError:
                pass
        if "vcr" in channels:
            import yaml

            try:
                data = yaml.safe_load(art["vcr"]) or {}
            except yaml.YAMLError:
                data = {}
            for it in data.get("http_interactions") or []:
                if it.get("response") is None and "/neterr" in ((it.get("request") or {}).get("uri") or ""):
                    res.count("neterr:vcr")
                    if any(live in v for vs in (it["request"].get("headers") or {}).values() for v in vs):
                        res.count("neterr:vcr_live")
        if "har" in channels:
            for e in json.loads(art["har"])["log"]["entries"]:
                if e["response"].get("status") == 0 and "/neterr" in e["request"].get("url", ""):
                    res.count("neterr:har")
                    if any(live in h["value"] for h in e["request"].get("headers", [])):
                        res.count("neterr:har_live")
    if item["group"] == "links":
        block = console[console.find("Failed to extract data from response"):] if "Failed to extract data from response" in console else ""
        steps = [line for line in block.split("\n") if line.strip().startswith("[201] curl -X POST")]
        if not steps:
            res.oracle_errors.append({"error": "stateful run without the 'Failed to extract data from response' history block", "item": item,
                                      "console_tail": console[-2500:]})
            return
        res.count("links:history_block", len(steps))
        if any(live in line for line in steps):
            res.count("links:history_live")
        methods = {r["method"] for r in log}
        if {"POST", "GET"} <= methods:
            res.count("links:multi_step")


def judge_generated(res: Result, item: dict, plan: Plan, gen: list[dict], art: dict, channels: list[str], log: list[dict]) -> None:
    """Generated security parameters: values differ per request and are arbitrary text, so they are judged through the
    slot that displays them (header / query pair of that name) compared with what the adapter received."""
    if not getattr(plan, "generated", []):
        return
    on, keys, markers, repl = effective(item["config"])
    for ch in channels:
        text = art[ch]
        shown = shown_values(ch, text)
        for g in plan.generated:  # type: ignore[attr-defined]
            probe = {"loc": g["loc"], "name": g["name"], "route": g["route"], "source": "generated"}
            sens = is_sensitive(probe, keys, markers) if on else False
            if sens is None:
                continue
            f = facts(probe, ch, item)
            pool = [r for r in log if r["status"] >= 500] if ch in FAILING_ONLY else log
            wire = [v.strip() for v in wire_slot_values(g, pool)]
            res.states += 1
            if not wire:
                res.count(f"not_on_wire:{g['route']}")
                continue
            if shown is None:
                continue
            prefix = g.get("prefix", "")
            slots = [e for e in shown if same_slot(e, probe)]
            if sens:
                for s in gen:
                    if s["route"] != g["route"]:
                        continue
                    for enc, place in find(ch, text, s):
                        res.outcomes.add("leak")
                        res.violation({"kind": "secret_in_output", **f, "encoding": enc, "place": place},
                                      {"item": item, "run_argv": art["argv"], "name": g["name"], "value": s["value"], "excerpt": excerpt(text, s)})
                bad = [e for e in slots if repl not in e["value"]]
                res.count("marker_slots_checked", len(slots))
                # a slot that shows exactly what was sent, and what was sent is not empty, is a leak whatever its length
                leaked = [e for e in bad if e["value"].strip() in wire and _secret_part(g, e["value"].strip())]
                unmarked = [e for e in bad if e["value"].strip() not in wire]
                if not leaked and not unmarked and bad:
                    res.count("empty_generated_value_shown_as_is", len(bad))  # nothing to hide, nothing judged
                if leaked:
                    worst = max(leaked, key=lambda e: len(e["value"]))
                    res.outcomes.add("leak")
                    res.violation({"kind": "secret_in_output", **f, "encoding": "raw", "place": "slot"},
                                  {"item": item, "run_argv": art["argv"], "name": g["name"], "shown": worst["value"][:200], "expected_marker": repl,
                                   "wire": wire[:4]})
                elif unmarked:
                    res.outcomes.add("not_marked")
                    res.violation({"kind": "value_not_replaced_by_marker", **f},
                                  {"item": item, "run_argv": art["argv"], "name": g["name"], "shown": unmarked[0]["value"][:200],
                                   "expected_marker": repl, "wire": wire[:4]})
                elif slots:
                    res.outcomes.add("hidden")
                    res.count(f"hidden:{g['route']}")
                    res.nontriv(["cli", item["group"], item["spelling"], item["config"], g["route"], g["name"], ch])
                else:
                    res.count(f"no_slot:{g['route']}:{ch}")
            else:
                mine = [e for e in slots if e["value"].strip().startswith(prefix.strip())]
                if any(e["value"].strip() in wire for e in mine):
                    res.outcomes.add("visible")
                    res.count(f"visible:{g['route']}")
                    res.nontriv(["cli", item["group"], item["spelling"], item["config"], g["route"], g["name"], ch])
                else:
                    kind = "value_missing_with_sanitisation_off" if not on else "redacted_although_name_not_configured"
                    res.outcomes.add("over_redacted")
                    res.violation({"kind": kind, **f}, {"item": item, "run_argv": art["argv"], "name": g["name"], "wire": wire[:4],
                                                        "shown": [e["value"][:80] for e in mine][:4]})


# ---------------------------------------------------------------------------------------------------------------------
# In-process Case.as_curl_command() over every key / marker


def check_curl(item: dict) -> Result:
    import schemathesis
    from schemathesis import OutputConfig
    from schemathesis.core.output import sanitization

    res = Result()
    how, config = item["spelling"], item["config"]
    on = config != "off"
    names = _dedupe([spell(n, how) for n in sorted(SPEC_KEYS) + sorted(MARKER_ONLY.values())
                     + [LIVE_HEADER, MOVABLE_HEADER, MOVABLE_QUERY, "mysql-pwd", "x-request-id", "etag"]])
    saved = sanitization._DEFAULT_SANITIZATION_CONFIG
    try:
        calls = CUSTOM.get(config, {})
        if calls.get("configure"):
            schemathesis.sanitization.configure(**calls["configure"])
        if calls.get("extend"):
            schemathesis.sanitization.extend(**calls["extend"])
        for userinfo in (False,) + USERINFO_SHAPES:
            for variant in ("case_headers", "extra_headers", "query", "query_multi", "cookies"):
                plan = Plan(item)
                secrets = []
                for n in names:
                    if variant in ("case_headers", "extra_headers"):
                        if n.lower() == "cookie" or (userinfo and n.lower() == "authorization"):
                            continue  # `requests` derives these two headers itself (cookies= / URL userinfo)
                        s = plan.plant("as_curl_header", "req_header", n, "k", control="live" if n.lower() == LIVE_HEADER else None)
                    elif variant == "query":
                        s = plan.plant("as_curl_query", "req_query", n, "k", control="live" if n.lower() == LIVE_HEADER else None)
                    elif variant == "query_multi":
                        # the same name twice in the query string (`?token=a&token=b`, an exploded array): both values are judged
                        s = plan.plant("as_curl_query", "req_query", n, "k", control="live" if n.lower() == LIVE_HEADER else None)
                        s["source"] = "case"
                        secrets.append(s)
                        s = plan.plant("as_curl_query_2nd", "req_query", n, "k")
                    else:
                        s = plan.plant("as_curl_cookie", "req_cookie", n, "k")
                    s["source"] = "case"
                    secrets.append(s)
                base = f"http://{HOST}"
                if userinfo:
                    u = plan.plant("as_curl_userinfo", "userinfo", "<userinfo>", "u", user="user")
                    u["source"] = "case"
                    secrets.append(u)
                    base = f"http://{userinfo_credentials(u, userinfo)}@{HOST}"
                live = plan.plant("as_curl_header", "req_header", "X-Live-Always", "k", control="live")
                live["source"] = "case"
                secrets.append(live)
                doc = {"openapi": "3.0.2", "info": {"title": "c15", "version": "1"},
                       "paths": {"/t": {"get": {"responses": {"200": {"description": "ok"}}}}}}
                schema = schemathesis.openapi.from_dict(doc).configure(base_url=base, output=OutputConfig(sanitize=on))
                operation = schema["/t"]["GET"]
                kw: dict[str, Any] = {"headers": {"X-Live-Always": live["value"]}}
                extra = None
                values = {s["name"]: s["value"] for s in secrets if s["loc"] != "userinfo" and s is not live}
                if variant == "case_headers":
                    kw["headers"].update(values)
                elif variant == "extra_headers":
                    extra = values
                elif variant == "query":
                    kw["query"] = values
                elif variant == "query_multi":
                    kw["query"] = {}
                    for s in secrets:
                        if s["loc"] == "req_query":
                            kw["query"].setdefault(s["name"], []).append(s["value"])
                    assert all(len(v) == 2 for v in kw["query"].values())
                    res.count("multi_value:query", len(kw["query"]))
                else:
                    kw["cookies"] = values
                case = operation.Case(**kw)
                command = case.as_curl_command(headers=extra)
                res.evaluations += 1
                res.traces += 1
                judge(res, {**item, "variant": variant, "userinfo": userinfo}, secrets, {"as_curl": command, "argv": None}, ["as_curl"], None)
                # review round 2 - the other entry point to the same reproduction command: the message of the FailureGroup that
                # `Case.call_and_validate()` raises (what a pytest run prints), request really sent through the in-process adapter.
                # Not with URL userinfo (the adapter is mounted for the plain host), and request cookies only while `cookie` is an
                # exact key (without it the ready-made Cookie header is shown as sent: recorded finding KF-C15-4a, not re-enumerated)
                if not userinfo:
                    if variant == "cookies" and "cookie" not in effective(config)[1]:
                        res.count("py_failure_cookies_skipped:KF-C15-4a")
                        continue
                    message, wire = failure_message(case, extra)
                    res.evaluations += 1
                    res.traces += 1
                    if message is None or "curl -X" not in message:
                        res.oracle_errors.append({"error": "call_and_validate() against a 500 response raised no FailureGroup with a curl line",
                                                  "item": item, "variant": variant, "message": (message or "")[:500]})
                        continue
                    judge(res, {**item, "variant": variant, "userinfo": False, "entry": "call_and_validate"}, secrets,
                          {"py_failure": message, "argv": None}, ["py_failure"], wire)
                if len(res.samples) < 1 and variant == "query" and userinfo:
                    res.samples.append({"item": item, "variant": variant, "command": command[:600]})
    finally:
        sanitization._DEFAULT_SANITIZATION_CONFIG = saved
    return res


def failure_message(case: Any, extra: dict | None) -> tuple[str | None, list[dict]]:
    """(message of the FailureGroup raised by case.call_and_validate() when the API answers 500, requests as received)."""
    from mc import httpseam
    from schemathesis.core.failures import FailureGroup

    def handler(exchange: Any) -> tuple:
        return 500, [("Content-Type", "application/json")], b'{"error": 1}'

    message = None
    with httpseam.installed(handler) as log:
        try:
            case.call_and_validate(headers=extra)
        except FailureGroup as exc:
            message = exc.message
        wire = [{"headers": e.headers, "query": [list(q) for q in e.query], "url": e.url, "path": e.path, "status": 500} for e in log.exchanges]
    return message, wire


def check_item(item: dict, tier: str) -> Result:
    if item["kind"] == "curl":
        return check_curl(item)
    return check_cli(item)


def finalize(total: Result, tier: str) -> None:
    for left in Path(tempfile.gettempdir()).glob(f"verif-c15-{os.getpid()}-*"):
        shutil.rmtree(left, ignore_errors=True)


def vacuity(total: Result, tier: str) -> list[str]:
    out = []
    c = total.counters
    for ch in CHANNELS:
        if not c.get(f"channel_alive:{ch}"):
            out.append(f"channel {ch} never had content")
        if not c.get(f"live:{ch}:req_header"):
            out.append(f"live control header never seen in {ch}")
    for ch in ("vcr", "har"):
        if not c.get(f"live:{ch}:resp_header"):
            out.append(f"live response control never seen in {ch}")
    for route in ("-H", "--auth", "userinfo", "--set-query", "--set-header", "--set-cookie", "response_set_cookie", "response_header",
                  "response_set_cookie_2nd", "as_curl_query_2nd",
                  "generated_apikey_header", "generated_apikey_query", "generated_apikey_cookie", "generated_basic", "generated_bearer",
                  "as_curl_header", "as_curl_query", "as_curl_cookie", "as_curl_userinfo"):
        if not c.get(f"hidden:{route}"):
            out.append(f"route {route}: no value was ever judged hidden with sanitisation on")
        if not c.get(f"visible:{route}"):
            out.append(f"route {route}: no value was ever judged visible (sanitisation off / unconfigured name)")
    for key in ("neterr:console", "neterr:junit", "neterr:vcr", "neterr:vcr_live", "neterr:har", "neterr:har_live",
                "links:history_block", "links:history_live", "links:multi_step", "multi_value:query"):
        if not c.get(key):
            out.append(f"flow counter {key} is zero: the round-2 flow left nothing in that channel")
    for loc in ("req_header", "req_query"):
        if not c.get(f"live:py_failure:{loc}"):
            out.append(f"live control ({loc}) never seen in the call_and_validate() failure message")
    if not c.get("marker_slots_checked"):
        out.append("no displayed name slot was checked for the redaction marker")
    if not {"hidden", "visible"} <= total.outcomes:
        out.append("outcome classes hidden/visible not both seen")
    return out
