"""C12 - execution limits and stop requests are honoured.

Same E3 exploration as C11 (all schedules <= p pre-emptions, <= e environment deviations on the real engine); the
oracle reads the request log (stamped with the scheduler's logical time) and the yielded events:
 (i)   fuzzing, operation without failing check: requests <= max_examples
 (ii)  stateful: requests per scenario <= stateful_step_count
 (iii) yielded failed/errored scenarios <= max_failures, and every later phase is SKIP with reason "failure limit reached"
 (iv)  after the stop request (logical time T of stop_event.set()): no ScenarioStarted is yielded, <= 1 request per worker
 (v)   unique_inputs: no two equal requests to one operation within the unit phases; stateful: within one sequence
 (vi)  rate limit: see props/c12_rate.py items (virtual clock), merged into this check
"""

from __future__ import annotations

import re
from typing import Any

from mc.runner import Result
from props import engine_explore as ee

ID = "C12"
LEVEL = "model_checking"
ENGINES = ["E3"]
RULE = (
    "work item = (document, phases, workers, max_examples, max_failures, step count, unique_inputs, API behaviour, rate limit); every schedule "
    "with <=p pre-emptions and <=e environment deviations (consumer stop after event i / Ctrl-C at a main-thread point) is executed on "
    "the real engine; distinct = distinct (item, request sequence, event sequence); non-trivial = a limit was actually reached or a stop was requested"
)
BOUNDS = {
    "quick": {"preemptions": 1, "env_deviations": 1, "total_deviations": 1, "max_examples": [1, 2, 3], "steps": [1, 2], "steps_review_round_2": [3], "max_exec_per_item": 1500},
    "thorough": {"preemptions": 2, "env_deviations": 1, "total_deviations": 2, "max_examples": [1, 2, 5], "steps": [1, 2, 3], "max_exec_per_item": 20000},
}
BUDGET_S = {"quick": 140, "thorough": 3300}
CHUNK = 1
ASSUMPTIONS = [
    "context switches only at scheduling points (thread/lock/event/queue operations, stop-flag reads, count_failure, request on the wire)",
    "the rate limiter is judged under a virtual clock: admission times, not wall-clock send times (the property exempts scheduling jitter)",
    "Hypothesis derandomised, database disabled: replay/shrink traffic exists only for operations with a failing check, which the property exempts",
]
TECHNIQUE = "stateless exploration of all thread schedules and stop points of the real engine under a controlled scheduler; bound predicates on the logical-time-stamped request log"
LEVEL_TEXT = (
    "Over-sending and late stops depend on where a worker is pre-empted relative to the stop flag and the failure counter; all "
    "schedules up to the pre-emption bound x every stop/Ctrl-C point are executed and the request log of each is checked against the configured limits."
)
LEVEL_NOTE = "Trusted: scheduler shims, in-process HTTP seam (request log), virtual clock for the limiter. Bounds: 1-2 workers (3 thorough), <=3 operations."


def items(tier: str, seed: int) -> list[dict]:
    b = BOUNDS[tier]
    p, e = b["preemptions"], b["env_deviations"]
    out: list[dict] = []

    def add(**kw: Any) -> None:
        base = {"doc": "unit3", "phases": ["fuzzing"], "workers": 2, "max_failures": None, "cof": False, "behaviour": "ok",
                "fault": None, "p": p, "e": e, "max_examples": 1, "unique": False, "total": b["total_deviations"]}
        base.update(kw)
        out.extend(ee.sharded(base, 4 if base["workers"] > 1 else 1))

    # the smallest runs under TWO pre-emptions (one worker, one operation)
    add(doc="one_b", workers=1, max_examples=2, p=2, e=0, total=2)
    add(doc="one_a", workers=1, max_examples=1, behaviour="all500", max_failures=1, p=2, e=0, total=2)
    for n in b["max_examples"]:
        add(max_examples=n, e=0)
        add(max_examples=n, workers=1, behaviour="fail:/b", e=0)
    add(max_examples=2, e=e)  # stop / Ctrl-C points
    # a stop in the middle of an operation that still has several examples to go (>= 2 requests would follow)
    # (needs a pre-emption - the consumer runs while the worker is between two requests - AND the stop: 2 deviations)
    out.extend(ee.sharded({"doc": "unit2", "phases": ["fuzzing"], "workers": 1, "max_failures": None, "cof": False, "behaviour": "ok",
                           "fault": None, "p": 1, "e": 1, "max_examples": 4, "unique": False, "total": 2, "ctrl_c": False}, 8))
    add(max_examples=2, workers=1, e=e)
    add(max_examples=1, behaviour="all500", e=e)
    for steps in b["steps"]:
        add(doc="link", phases=["stateful"], workers=1, max_examples=2, steps=steps, e=0)
    add(doc="link", phases=["stateful"], workers=1, max_examples=2, steps=2, e=e)
    for mf in (1, 2):
        add(behaviour="all500", max_failures=mf, e=0)
        add(doc="unit2", phases=["examples", "coverage", "fuzzing"], behaviour="all500", max_failures=mf, e=0)
    add(doc="link", phases=["fuzzing", "stateful"], workers=1, behaviour="all500", max_failures=1, e=0, max_examples=2)
    # scenarios that end as ERROR (connection dropped on every request) count towards the limit like failed ones
    for mf in (1, 2):
        add(doc="unit3", phases=["coverage", "fuzzing"], workers=1, max_failures=mf, e=0, p=0,
            fault={"stage": "transport", "kind": "ConnectionError", "path": "/", "k": 1, "persistent": True})
    add(doc="unit3", phases=["fuzzing"], workers=2, max_failures=1, e=0,
        fault={"stage": "transport", "kind": "ConnectionError", "path": "/b", "k": 1, "persistent": True}, behaviour="fail:/c")
    add(doc="link", phases=["stateful"], workers=1, behaviour="fail_get_user", max_failures=1, e=0, max_examples=3)
    add(unique=True, max_examples=4, e=0)
    add(unique=True, max_examples=4, workers=1, e=0, doc="unit2", phases=["coverage", "fuzzing"])
    add(cof=True, behaviour="fail:/b", max_examples=3, e=0)
    _review_round_2(add, out, tier)
    from props import c12_rate

    out.extend(c12_rate.items(tier))
    if tier == "thorough":
        add(workers=3, max_examples=2, e=e)
        add(workers=3, behaviour="all500", max_failures=1, e=0)
        add(unique=True, max_examples=5, workers=2, e=0, doc="unit2", phases=["examples", "coverage", "fuzzing"])
    return out


def _review_round_2(add: Any, out: list, tier: str) -> None:
    """Bound clauses x configurations the first version left out (one worker / no pre-emption where the clause is not about
    interleaving; e=0 unless the clause is the stop request)."""
    all_unit = ["examples", "coverage", "fuzzing"]
    # (i) max_examples per operation IN THE FUZZING PHASE when other phases run before it (requests are attributed to the
    #     phase by logical time); documents with one operation; an operation whose only failing response is ... another one's
    add(doc="unit3", phases=all_unit, workers=1, max_examples=2, e=0, p=0)
    add(doc="unit3", phases=all_unit, workers=2, max_examples=3, e=0, p=0, behaviour="fail:/b")
    add(doc="one_a", workers=2, max_examples=3, e=0)
    add(doc="unit3", workers=1, max_examples=3, e=0, p=0, modes=["positive", "negative"])
    add(doc="one_b", workers=1, max_examples=3, e=0, p=0)
    # (ii) stateful step count: one more step than the longest chain of links; after other phases; with a failing API
    add(doc="link", phases=["stateful"], workers=1, max_examples=3, steps=3, e=0)
    add(doc="link", phases=["fuzzing", "stateful"], workers=1, max_examples=2, steps=1, e=0, p=0)
    add(doc="link", phases=["stateful"], workers=1, max_examples=3, steps=3, e=0, p=0, behaviour="fail_linked_user")
    # (iii) failure limit reached by the LAST operation (a later phase is skipped) / in the LAST phase (nothing left to skip) /
    #       exactly by the second failure / with continue_on_failure / by an exception of a check instead of the transport
    add(doc="unit3", phases=["coverage", "fuzzing"], workers=1, behaviour="fail:/c", max_failures=1, e=0, p=0)
    add(doc="unit3", phases=["coverage", "fuzzing"], workers=1, behaviour="fail:/c", max_failures=2, e=0, p=0)
    add(doc="unit3", phases=["coverage", "fuzzing"], workers=1, behaviour="all500", max_failures=1, cof=True, e=0, p=0, max_examples=2)
    add(doc="unit3", phases=["coverage", "fuzzing"], workers=1, max_failures=1, e=0, p=0,
        fault={"stage": "check", "kind": "RuntimeError", "path": "/b", "k": 1, "persistent": True})
    add(doc="link", phases=[*all_unit, "stateful"], workers=1, behaviour="fail_linked_user", max_failures=1, e=0, p=0)
    add(doc="link", phases=[*all_unit, "stateful"], workers=1, behaviour="fail_get_user", max_failures=2, e=0, p=0)
    # (iv) stop requests while SEVERAL phases are still to come, and in the middle of a stateful sequence that has steps left
    #      (the latter needs a pre-emption - the consumer runs while the sequence is between two steps - AND the stop)
    add(doc="unit2", phases=["coverage", "fuzzing"], workers=1, max_examples=2)
    add(doc="link", phases=["fuzzing", "stateful"], workers=1, max_examples=2)
    out.extend(ee.sharded({"doc": "link", "phases": ["stateful"], "workers": 1, "max_failures": None, "cof": False, "behaviour": "ok",
                           "fault": None, "p": 1, "e": 1, "max_examples": 2, "steps": 3, "unique": False, "total": 2, "ctrl_c": False}, 8))
    # (v) unique inputs in a stateful sequence; with a failing / continued operation (the cached outcome is a failure)
    add(doc="link", phases=["stateful"], workers=1, max_examples=3, steps=3, unique=True, e=0, p=0)
    add(doc="unit2", phases=all_unit, workers=1, max_examples=3, unique=True, behaviour="fail:/b", e=0, p=0)
    add(doc="unit2", phases=["coverage", "fuzzing"], workers=2, max_examples=3, unique=True, behaviour="all500", cof=True, e=0, p=0)


_PHASE_EVENT_NAME = {"examples": "EXAMPLES", "coverage": "COVERAGE", "fuzzing": "FUZZING", "stateful": "STATEFUL_TESTING"}


def _phase_name(event: Any) -> str:
    ph = event.phase
    inner = getattr(ph, "name", ph)
    return getattr(inner, "name", str(inner))


def _operation_of(doc_name: str, exchange: Any) -> str:
    path = exchange.path
    if doc_name == "link" and path.startswith("/users/"):
        path = "/users/{id}"
    return f"{exchange.method} {path}"


def judge(item: dict, run: Any, r: Any, res: Result, current_item: dict) -> None:
    events = r.events
    names = [type(e).__name__ for e in events]
    env = next((p.labels[p.chosen] for p in run.trace if p.chosen and p.costs[p.chosen][1]), None)
    base = {"env": env, "workers_gt1": item["workers"] > 1}
    detail = {"item": item, "schedule": ee.schedule_brief(run), "events": ee.events_brief(events),
              "requests": [(x.method, x.url, x.thread, x.time) for x in r.exchanges][:40]}

    def bad(kind: str, **facts: Any) -> None:
        res.violation({**base, "kind": kind, **{k: v for k, v in facts.items() if k in ("phase", "operation_failing")}},
                      detail | facts, current_item)

    failing_ops = set()
    if item["behaviour"] == "all500":
        failing_ops = {"*"}
    elif item["behaviour"].startswith("fail:"):
        failing_ops = {"GET " + item["behaviour"][5:]}
    elif item["behaviour"] in ("fail_get_user", "fail_linked_user"):
        failing_ops = {"GET /users/{id}"}
    elif item["behaviour"] != "ok":
        raise AssertionError(f"behaviour {item['behaviour']!r}: say which operations it makes fail")
    if item.get("fault"):
        # an operation hit by the injected fault errors (Hypothesis replays it): exempt like one with a failing check
        failing_ops |= {op for op in ("GET /a", "GET /b", "GET /c", "POST /users", "GET /users/{id}")
                        if op.split(" ", 1)[1].startswith(item["fault"].get("path") or "/")}
    reached = False
    # (i) max_examples in fuzzing.  When fuzzing is the only phase every logged request belongs to it; otherwise a request
    # belongs to it when it was put on the wire between the moments PhaseStarted(FUZZING) and PhaseFinished(FUZZING) were
    # yielded (the phase's workers are started after the first and joined before the second)
    window = None
    if item["phases"] == ["fuzzing"]:
        window = (-1, float("inf"))
    elif "fuzzing" in item["phases"] and env is None:
        t0 = [t for e, n, t in zip(events, names, r.event_times) if n == "PhaseStarted" and _phase_name(e) == "FUZZING"]
        t1 = [t for e, n, t in zip(events, names, r.event_times) if n == "PhaseFinished" and _phase_name(e) == "FUZZING"]
        if len(t0) == 1 and len(t1) == 1:
            window = (t0[0], t1[0])
    if window is not None:
        if len(item["phases"]) > 1:
            res.count("r2_fuzzing_requests_counted_in_a_run_of_several_phases")
        per_op: dict[str, int] = {}
        for x in r.exchanges:
            if not window[0] < x.time <= window[1]:
                continue
            per_op[_operation_of(item["doc"], x)] = per_op.get(_operation_of(item["doc"], x), 0) + 1
        for op, n in per_op.items():
            if "*" in failing_ops or op in failing_ops:
                continue
            if n >= item["max_examples"]:
                reached = True
            if n > item["max_examples"]:
                bad("more_requests_than_max_examples", operation=op, sent=n, limit=item["max_examples"])
    # (ii) stateful step count
    for e, n in zip(events, names):
        if n == "ScenarioFinished" and _phase_name(e) == "STATEFUL_TESTING":
            sent = len(e.recorder.interactions)
            if sent >= item.get("steps", 2):
                reached = True
            if sent > item.get("steps", 2):
                bad("stateful_scenario_longer_than_step_count", sent=sent, limit=item.get("steps", 2))
    # (iii) failure limit
    if item["max_failures"] is not None:
        failed = [e for e, n in zip(events, names) if n == "ScenarioFinished" and getattr(e.status, "name", "") in ("FAILURE", "ERROR")]
        if len(failed) >= item["max_failures"]:
            reached = True
        if len(failed) > item["max_failures"]:
            bad("more_failed_scenarios_than_max_failures", reported=len(failed), limit=item["max_failures"],
                phase=_phase_name(failed[-1]))
        if len(failed) >= item["max_failures"] and env is None:
            # phase in which the limit was reached = phase of the max_failures-th failed scenario
            limit_phase = _phase_name(failed[item["max_failures"] - 1])
            if len(item["phases"]) > 1 and limit_phase == _PHASE_EVENT_NAME[item["phases"][-1]]:
                res.count("r2_failure_limit_reached_in_the_last_of_several_phases")
            elif len(item["phases"]) > 1 and len(failed) == item["max_failures"] and failed[-1].label == {"unit3": "GET /c", "unit2": "GET /b"}.get(item["doc"]):
                res.count("r2_failure_limit_reached_by_the_last_operation_of_a_phase")
            after = False
            for e, n in zip(events, names):
                if n == "PhaseFinished":
                    if after:
                        status = getattr(e.status, "name", "")
                        reason = getattr(getattr(e.phase, "skip_reason", None), "name", None)
                        if status != "SKIP" or reason != "FAILURE_LIMIT_REACHED":
                            bad("phase_after_failure_limit_not_skipped_with_reason", phase=_phase_name(e), status=status, reason=reason)
                    elif _phase_name(e) == limit_phase:
                        after = True
    # (iv) stop requests
    T = r.stop_event_set_at
    if env is not None and T is not None:
        reached = True
        stateful_times = [x.time for x in r.exchanges if x.thread.startswith("schemathesis_stateful")]
        if env == "stop" and stateful_times and min(stateful_times) < T and any(t > T for t in r.put_times.values()):
            res.count("r2_stop_requested_while_a_stateful_sequence_was_running")
        last_phase = _PHASE_EVENT_NAME[item["phases"][-1]]
        if len(item["phases"]) > 1 and r.stop_after_event is not None and not any(
                n == "PhaseStarted" and _phase_name(e) == last_phase for e, n in list(zip(events, names))[: r.stop_after_event + 1]):
            res.count("r2_stop_requested_with_phases_still_to_come")
        late: dict[str, int] = {}
        for e, n, t in zip(events, names, r.event_times):
            # a scenario is *started* when its worker announces it (queues the event), not when the consumer reads it:
            # workers may run ahead of the consumer, and events queued before the stop request are still delivered
            started_at = r.put_times.get(id(e), t)
            if n == "ScenarioStarted" and started_at > T:
                late[_phase_name(e)] = late.get(_phase_name(e), 0) + 1
        for phase_name, n_late in late.items():
            # one announcement per producing thread may be in flight: the thread read the stop flag (not set), was
            # pre-empted, the stop arrived, and the thread then queued the event it had already decided on (the same
            # allowance as for the one request in flight per worker below); the stateful phase has one producing thread
            in_flight = 1 if phase_name == "STATEFUL_TESTING" else item["workers"]
            if n_late > in_flight:
                bad("scenario_started_after_stop_request", phase=phase_name)
            else:
                res.count("scenario_announcements_in_flight_at_stop")
        per_thread: dict[str, int] = {}
        for x in r.exchanges:
            if x.time > T:
                per_thread[x.thread] = per_thread.get(x.thread, 0) + 1
        for th, n in per_thread.items():
            if n > 1:
                bad("more_than_one_request_per_worker_after_stop", thread=re.sub(r"_\d+$", "", th), sent=n)
    # (v) unique inputs (unit phases: per operation; stateful phase: per operation within ONE sequence - a later sequence
    # has to repeat the requests that build its state - where a sequence is what was sent between the moments two
    # consecutive ScenarioStarted events of the phase were announced by the state-machine thread)
    if item.get("unique"):
        seen: dict[tuple, int] = {}
        starts = sorted(r.put_times.get(id(e), t) for e, n, t in zip(events, names, r.event_times)
                        if n == "ScenarioStarted" and _phase_name(e) == "STATEFUL_TESTING")
        for x in r.exchanges:
            if x.thread.startswith("schemathesis_stateful"):
                res.count("r2_stateful_requests_judged_for_uniqueness")
                sequence = sum(1 for t in starts if t <= x.time)
                k = (_operation_of(item["doc"], x), "sequence", sequence) + x.key()
            else:
                k = (_operation_of(item["doc"], x),) + x.key()
            seen[k] = seen.get(k, 0) + 1
        dup = {k: n for k, n in seen.items() if n > 1}
        if seen:
            reached = True
        if dup:
            k = next(iter(dup))
            bad("duplicate_request_with_unique_inputs", operation=k[0], url=k[-3], times=dup[k],
                phase="STATEFUL_TESTING" if "sequence" in k[:2] else "unit")
    if reached:
        res.nontriv([item, [(x.method, x.url) for x in r.exchanges], ee.events_brief(events)])


def check_item(item: dict, tier: str) -> Result:
    if item.get("kind") == "rate":
        from props import c12_rate

        return c12_rate.check_item(item, tier)
    res = Result()
    cap = BOUNDS[tier]["max_exec_per_item"]
    last_stats = None
    for run, fault_state, stats in ee.explore_item(item, max_executions=cap):
        last_stats = stats
        current_item = item if "replay_choices" in item else {**item, "replay_choices": run.choices}
        res.evaluations += 1
        r = run.outcome
        if r is None or run.aborted:
            res.count("aborted_executions")  # judged by C11 (termination); nothing to measure here
            continue
        res.traces += 1
        judge(item, run, r, res, current_item)
        res.outcomes.add((len(r.exchanges), len(r.events)))
        if len(res.samples) < 2 and run.switches > 2:
            res.samples.append({"item": item, "schedule": ee.schedule_brief(run),
                                "requests": [(x.method, x.url, x.thread, x.time) for x in r.exchanges][:12]})
    if last_stats is not None:
        res.states += len(last_stats.states)
        res.transitions += last_stats.points
        if last_stats.capped:
            res.exhaustive = False
            res.count("items_capped")
    return res


def vacuity(total: Result, tier: str) -> list[str]:
    out = []
    if len(total.nontrivial) < 10:
        out.append("fewer than 10 distinct executions in which a limit was reached or a stop requested")
    for key in ("r2_fuzzing_requests_counted_in_a_run_of_several_phases", "r2_failure_limit_reached_in_the_last_of_several_phases",
                "r2_failure_limit_reached_by_the_last_operation_of_a_phase", "r2_stop_requested_while_a_stateful_sequence_was_running",
                "r2_stop_requested_with_phases_still_to_come", "r2_stateful_requests_judged_for_uniqueness"):
        if not total.counters.get(key):
            out.append(f"review-round-2 shape never exercised: {key}")
    return out
