"""C09 - the printed "Reproduce with" curl command re-sends the same request.

Executed differential (no text comparison): every case of a finite product (request part x character x position x method)
is built as a real ``Case`` of a real operation, sent by Schemathesis (``case.call()``) to a loopback recording server,
then the command Schemathesis would print (``case.as_curl_command(headers=dict(response.request.headers),
verify=response.verify)`` - the expression used by ``Case.validate_response``, the CLI and, through
``ScenarioRecorder.find_failure_data``, by the engine) is executed by the real ``sh`` with the real ``curl`` against the
same server.  The two recorded wire requests are compared: method, request-target bytes, body bytes, header multiset
minus the headers curl / requests add on their own.
"""

from __future__ import annotations

import copy
import os
import re
import socketserver
import ssl
import subprocess
import tempfile
import threading
import warnings
from typing import Any
from urllib.parse import quote_plus

from mc import c09_extra
from mc.runner import Result, digest

ID = "C09"
LEVEL = "exploration"
ENGINES = ["E2"]
TECHNIQUE = (
    "exhaustive enumeration of a finite input product (request part x character x position x method, plus ordered "
    "character pairs in the thorough tier), each case decided by an executed differential: the request Schemathesis sends "
    "and the request its printed curl command sends (real sh + real curl) are both recorded on the wire by a loopback "
    "server and compared field by field"
)
RULE = (
    "work item = one case: request part in {header X-T, header Accept (a name curl.py filters unless the case carries it), cookie, query, path (raw value), path (quote_plus'ed value as the "
    "generator produces it), text/plain body, JSON string body, urlencoded form field, multipart field} x string built from a "
    "character of a 16-character alphabet at a position in {alone, a+c, c+a, a+c+a} (thorough: also every ordered pair of two "
    "distinct special characters) x method in {GET, POST, PUT} (bodies: POST, PUT) x scheme {http; https+verify=False slice} x "
    "sanitisation {off; on slice}; distinct = distinct (part, string, method, scheme, sanitise) tuples; a case is non-trivial "
    "when the original request reached the wire and the curl command was executed and judged. "
    "Review round 2 adds: (6) methods DELETE, PATCH (with and without payload), HEAD, OPTIONS, TRACE x every part x a 4-character slice; "
    "(7) the place the command is read from: the text of the FailureGroup raised by Case.call_and_validate on a 500 answer (every part x "
    "every character, alone) and Case.as_curl_command() without arguments (6-character slice); (8) request shapes of mc/c09_extra.py - two/three "
    "headers, cookies, query parameters, form fields, JSON keys at once in both writing orders, list values (repeated names) incl. the empty "
    "list; header names in three spellings for names requests sets by default (User-Agent, Accept, Accept-Encoding, Connection), Content-Type "
    "next to a payload, Authorization, each carried by the case or given per call (headers=, auth=, cookies=); payload types str / bytes / "
    "dict / list / number / bool per media type, empty containers, falsy JSON, serialised bytes, media type without payload - each shape x the "
    "three places the command is read from; (9) engine scenarios: configured headers (own name / a default name of requests), an operation "
    "with a payload, the coverage phase, the stateful phase (a link followed, ignored_auth deriving a case inside it)"
)
BOUNDS = {
    "quick": {"characters": 16, "positions": 4, "methods": 3, "character_pairs": False, "https_slice": "3 characters, alone, POST",
              "sanitize_slice": "all characters, alone, POST",
              "other_methods": "DELETE PATCH HEAD OPTIONS TRACE x all parts x 4 characters, alone",
              "entry_points": "failure message: all parts x all characters, alone; as_curl_command(): 6 characters, alone",
              "shapes": "all shapes of mc/c09_extra.py x 3 entry points (+ sanitisation on for the header-name shapes)", "engine_scenarios": 12},
    "thorough": {"characters": 16, "positions": 4, "methods": 3, "character_pairs": "all ordered pairs of 14 special characters x 4 positions x all methods",
                 "https_slice": "all characters x 4 positions, POST", "sanitize_slice": "all characters x 4 positions, POST",
                 "other_methods": "DELETE PATCH HEAD OPTIONS TRACE x all parts x all characters, alone",
                 "entry_points": "failure message and as_curl_command(): all parts x all characters x 4 positions",
                 "shapes": "as quick", "engine_scenarios": 12},
}
BUDGET_S = {"quick": 120, "thorough": 1800}
CHUNK = 8
ASSUMPTIONS = [
    "header and cookie values are ASCII, payloads are text (as the property restricts); strings longer than 3 characters and "
    "characters outside the 16-character alphabet are not enumerated",
    "headers ignored on both sides because curl / requests / Schemathesis add them on their own and curl.generate filters them "
    "by design: User-Agent, Accept, Accept-Encoding, Connection, Host, Content-Length, Transfer-Encoding, Expect, "
    "X-Schemathesis-TestCaseId; a Content-Type that only curl sends while the original had none is 'added by curl on its own'",
    "optional whitespace around header values is not significant (RFC 9110) and is stripped before comparison",
    "multipart bodies are compared modulo the (random) boundary token, but each request must be framed with the boundary its "
    "own Content-Type announces",
    "a case whose original request cannot be sent at all (requests rejects the header value) has no reproduction command and is "
    "counted as trivial; likewise a case whose header value went out with a line fold (cookie value containing newline+space, which "
    "http.client lets through as obs-fold): the property speaks of header values, a folded line is left undecided "
    "(observation: Case.as_curl_command raises InvalidHeader for it instead of printing a command)",
    "curl 7.88.1 and dash as installed in the sandbox are the environment; cwd=/ and an empty HOME (no ~/.curlrc), stdin closed",
    "a header that the caller wrote down - in the case, in call(headers=...) or in the run configuration - is not 'added by curl / requests on "
    "their own', whatever its name; headers and cookies given per call belong to the original request (the command is built from "
    "response.request.headers); call(params=...) is not enumerated (the transport ignores it)",
    "the command in a failure message is the text after 'Reproduce with: \\n\\n    ' up to the end of the message",
    "with sanitisation on only names that the sanitiser documents as sensitive (here: Authorization, Cookie) may differ, and only by "
    "being replaced with [Filtered]",
]
LEVEL_TEXT = (
    "Every case of the stated finite product is executed on the real code, the real shell and the real curl and judged on the "
    "wire; nothing is sampled. This is exhaustive exploration of a stated finite input space, not a proof over all byte strings."
)
LEVEL_NOTE = (
    "Trusted: the recording server in this module (raw socket reader), curl and dash as the reference environment. Not covered: "
    "strings beyond the alphabet/length bound, binary payloads, non-ASCII header values, other shells."
)

# ---------------------------------------------------------------------------------------------------------------------
# the enumerated product

CHARS: list[tuple[str, str]] = [
    ("a", "a"), ("space", " "), ("squote", "'"), ("dquote", '"'), ("backslash", "\\"), ("dollar", "$"), ("backtick", "`"),
    ("at", "@"), ("newline", "\n"), ("semicolon", ";"), ("amp", "&"), ("hash", "#"), ("percent", "%"), ("bang", "!"),
    ("eacute", "é"), ("empty", ""),
    # characters of curl's URL globbing ({a,b} / [1-3]); harmless everywhere but in the URL
    ("lbracket", "["), ("rbracket", "]"), ("lbrace", "{"), ("rbrace", "}"),
]
CHAR = dict(CHARS)
POSITIONS = ["alone", "a+c", "c+a", "a+c+a"]
PARTS = ["header", "header_accept", "cookie", "query", "path_raw", "path_gen", "text", "json", "form", "multipart"]
# payloads that serialise to nothing: the request announces a media type and carries no body (value-independent parts)
EMPTY_PAYLOAD_PARTS = {"form_nofields": ("form", {}), "form_empty_array": ("form", {"f": []}), "multipart_nofields": ("multipart", {}),
                       "json_null": ("json", None)}
BODY_PARTS = {"text", "json", "form", "multipart", *EMPTY_PAYLOAD_PARTS}
ASCII_ONLY_PARTS = {"header", "header_accept", "cookie"}
MEDIA = {"text": "text/plain", "json": "application/json", "form": "application/x-www-form-urlencoded", "multipart": "multipart/form-data"}


# review round 2 ---------------------------------------------------------------------------------------------------------
# methods beyond GET/POST/PUT ("any method"): with a payload where the method may carry one, without where it may not
EXTRA_METHODS = ["DELETE", "PATCH", "HEAD", "OPTIONS", "TRACE"]
EXTRA_BODY_METHODS = ["DELETE", "PATCH"]
METHOD_SLICE_CHARS = ["squote", "space", "hash", "empty"]
# where the command is read from: the expression of Case.validate_response evaluated by the harness (round 1), the text of the
# failure raised by Case.call_and_validate ("Reproduce with:" block of format_failures), Case.as_curl_command() without arguments
ENTRIES = ["response_headers", "failure_message", "bare"]
BARE_SLICE_CHARS = ["a", "squote", "space", "at", "percent", "empty"]
REPRODUCE_MARKER = "Reproduce with: \n\n    "


def build_value(char: str, pos: str, second: str | None = None) -> str:
    c = CHAR[char] + (CHAR[second] if second else "")
    return {"alone": c, "a+c": "a" + c, "c+a": c + "a", "a+c+a": "a" + c + "a"}[pos]


def _methods(part: str) -> list[str]:
    return ["POST", "PUT"] if part in BODY_PARTS else ["GET", "POST", "PUT"]


def items(tier: str, seed: int) -> list[dict]:
    out: list[dict] = []
    seen: set[str] = set()

    def add(part: str, char: str, pos: str, method: str, scheme: str = "http", sanitize: bool = False, second: str | None = None,
            entry: str | None = None) -> None:
        if part in ASCII_ONLY_PARTS and "eacute" in (char, second):
            return
        value = build_value(char, pos, second)
        key = digest([part, value, method, scheme, sanitize] + ([entry] if entry else []))
        if key in seen:  # 'a' and the empty character give the same strings at several positions
            return
        seen.add(key)
        item = {"part": part, "char": char, "pos": pos, "method": method, "scheme": scheme, "sanitize": sanitize}
        if second:
            item["second"] = second
        if entry:
            item["entry"] = entry
        out.append(item)

    # 1. the full single-character product, sanitisation off, plain http
    for pos in POSITIONS:
        for char, _ in CHARS:
            for part in PARTS:
                for method in _methods(part):
                    add(part, char, pos, method)
    # 2. https slice (self-signed certificate, verify=False -> the command needs --insecure)
    for part in PARTS:
        for char in ([n for n, _ in CHARS] if tier == "thorough" else ["a", "squote", "space"]):
            for pos in (POSITIONS if tier == "thorough" else ["alone"]):
                add(part, char, pos, "POST", scheme="https")
    # 3. sanitisation on: nothing but redacted values may differ
    for pos in (POSITIONS if tier == "thorough" else ["alone"]):
        for char, _ in CHARS:
            for part in PARTS:
                add(part, char, pos, "POST", sanitize=True)
    # 4. thorough: every ordered pair of two distinct special characters
    if tier == "thorough":
        special = [n for n, _ in CHARS if n not in ("a", "empty")]
        for first in special:
            for second in special:
                if first == second:
                    continue
                for part in PARTS:
                    for pos in POSITIONS:
                        for method in _methods(part):
                            add(part, first, pos, method, second=second)
    # 4b. media type announced, nothing (or a literal null) to send
    for part in EMPTY_PAYLOAD_PARTS:
        for method in _methods(part):
            add(part, "empty", "alone", method)
        add(part, "empty", "alone", "POST", scheme="https")
        add(part, "empty", "alone", "POST", sanitize=True)
    # 5. the command as the engine records it for failed checks (incl. checks that report on a case they derived)
    out.extend(dict(sc) for sc in ENGINE_SCENARIOS)
    # --- review round 2 ---
    # 6. the other methods: every part, a slice of the characters (thorough: all), alone
    for part in [*PARTS, *EMPTY_PAYLOAD_PARTS]:
        methods = EXTRA_BODY_METHODS if part in BODY_PARTS else EXTRA_METHODS
        for char in (["empty"] if part in EMPTY_PAYLOAD_PARTS else [n for n, _ in CHARS] if tier == "thorough" else METHOD_SLICE_CHARS):
            for method in methods:
                add(part, char, "alone", method)
    # 7. the other places the command is read from, for the round-1 parts
    for part in [*PARTS, *EMPTY_PAYLOAD_PARTS]:
        for pos in (POSITIONS if tier == "thorough" else ["alone"]):
            for char in (["empty"] if part in EMPTY_PAYLOAD_PARTS else [n for n, _ in CHARS]):
                add(part, char, pos, "POST", entry="failure_message")
                if tier == "thorough" or char in BARE_SLICE_CHARS:
                    add(part, char, pos, "POST", entry="bare")
        add(part, "squote" if part not in EMPTY_PAYLOAD_PARTS else "empty", "alone", "POST", sanitize=True, entry="failure_message")
    # 8. request shapes (two values at once in both writing orders, header names, payload types) x the place the command is read from
    for shape in c09_extra.shapes(CHAR):
        for entry in ENTRIES:
            if entry == "bare" and shape.get("call"):
                continue  # Case.as_curl_command() cannot know what was given to call()
            out.append({"kind": "shape", **shape, "entry": entry, "scheme": "http", "sanitize": False})
        if shape["dim"] == "header_name":
            out.append({"kind": "shape", **shape, "entry": "response_headers", "scheme": "http", "sanitize": True})
    return out


# ---------------------------------------------------------------------------------------------------------------------
# the recording server (raw: nothing of the request is parsed beyond what is needed to find the end of the body)


class _Recorder(socketserver.StreamRequestHandler):
    timeout = 10

    def setup(self) -> None:
        ctx = getattr(self.server, "tls", None)
        if ctx is not None:
            self.request = ctx.wrap_socket(self.request, server_side=True)
        super().setup()

    def handle(self) -> None:
        line = self.rfile.readline(65537)
        if not line:
            return
        headers: list[tuple[str, str]] = []
        folded = False
        while True:
            raw = self.rfile.readline(65537)
            if raw in (b"\r\n", b"\n", b""):
                break
            if raw[:1] in (b" ", b"\t") and headers:  # obs-fold: a header value that contains a line break
                folded = True
                headers[-1] = (headers[-1][0], headers[-1][1] + "\n" + raw.strip(b" \t\r\n").decode("latin-1"))
                continue
            name, _, value = raw.rstrip(b"\r\n").partition(b":")
            headers.append((name.decode("latin-1"), value.decode("latin-1").strip(" \t")))
        lower = {k.lower(): v for k, v in headers}
        if "100-continue" in lower.get("expect", "").lower():
            self.wfile.write(b"HTTP/1.1 100 Continue\r\n\r\n")
            self.wfile.flush()
        body = b""
        if "chunked" in lower.get("transfer-encoding", "").lower():
            while True:
                size = int(self.rfile.readline(100).split(b";")[0].strip() or b"0", 16)
                if size == 0:
                    while self.rfile.readline(65537) not in (b"\r\n", b"\n", b""):
                        pass
                    break
                body += self.rfile.read(size)
                self.rfile.readline(10)
        elif lower.get("content-length", "").isdigit():
            body = self.rfile.read(int(lower["content-length"]))
        with self.server.lock:
            self.server.records.append({"line": line, "headers": headers, "body": body, "folded": folded})
        status = b"500 Internal Server Error" if b"/fail" in line.split(b"?")[0] else b"200 OK"
        self.wfile.write(b"HTTP/1.1 " + status + b"\r\nContent-Length: 0\r\nConnection: close\r\n\r\n")


class _Server(socketserver.ThreadingTCPServer):
    daemon_threads = True
    allow_reuse_address = True
    request_queue_size = 64

    def __init__(self, tls: ssl.SSLContext | None = None) -> None:
        super().__init__(("127.0.0.1", 0), _Recorder)
        self.tls = tls
        self.records: list[dict] = []
        self.lock = threading.Lock()
        self.port = self.server_address[1]

    def handle_error(self, request: Any, client_address: Any) -> None:  # a client that gives up (TLS alert) is not our error
        with self.lock:
            self.records.append({"error": True})

    def drain(self) -> list[dict]:
        with self.lock:
            out, self.records = self.records, []
        return out


def _self_signed_context() -> ssl.SSLContext:
    """A throw-away self-signed certificate, generated in memory; the PEM file exists only while it is being loaded."""
    import datetime

    from cryptography import x509
    from cryptography.hazmat.primitives import hashes, serialization
    from cryptography.hazmat.primitives.asymmetric import ec
    from cryptography.x509.oid import NameOID
    import ipaddress

    key = ec.generate_private_key(ec.SECP256R1())
    name = x509.Name([x509.NameAttribute(NameOID.COMMON_NAME, "127.0.0.1")])
    now = datetime.datetime(2020, 1, 1)
    cert = (
        x509.CertificateBuilder().subject_name(name).issuer_name(name).public_key(key.public_key())
        .serial_number(1).not_valid_before(now).not_valid_after(datetime.datetime(2120, 1, 1))
        .add_extension(x509.SubjectAlternativeName([x509.IPAddress(ipaddress.ip_address("127.0.0.1"))]), critical=False)
        .sign(key, hashes.SHA256())
    )
    pem = key.private_bytes(serialization.Encoding.PEM, serialization.PrivateFormat.TraditionalOpenSSL, serialization.NoEncryption())
    pem += cert.public_bytes(serialization.Encoding.PEM)
    ctx = ssl.SSLContext(ssl.PROTOCOL_TLS_SERVER)
    with tempfile.NamedTemporaryFile(suffix=".pem") as fd:
        fd.write(pem)
        fd.flush()
        ctx.load_cert_chain(fd.name)
    return ctx


def document() -> dict:
    string = {"type": "string"}
    obj = {"type": "object", "properties": {"f": {"type": "string"}}}
    marker = {"name": "m", "in": "path", "required": True, "schema": string}
    common = [marker, {"name": "X-T", "in": "header", "schema": string}, {"name": "Accept", "in": "header", "schema": string}, {"name": "Authorization", "in": "header", "schema": string},
              {"name": "q", "in": "query", "schema": string}, {"name": "ck", "in": "cookie", "schema": string}]
    body = {"content": {"text/plain": {"schema": string}, "application/json": {"schema": string},
                        "application/x-www-form-urlencoded": {"schema": obj}, "multipart/form-data": {"schema": obj}}}
    paths: dict[str, dict] = {"/c/{m}": {}, "/c/{m}/{p}": {}, "/fail/{m}": {}, "/fail/{m}/{p}": {}}
    for method in ("get", "post", "put", "delete", "patch", "head", "options", "trace"):
        op: dict[str, Any] = {"parameters": common, "responses": {"200": {"description": "OK"}}}
        if method in ("post", "put", "delete", "patch"):
            op["requestBody"] = body
        for prefix in ("/c", "/fail"):  # the recording server answers 500 under /fail (a failing not_a_server_error check)
            paths[prefix + "/{m}"][method] = op
            paths[prefix + "/{m}/{p}"][method] = {"parameters": [marker, {"name": "p", "in": "path", "required": True, "schema": string}],
                                                  "responses": {"200": {"description": "OK"}}}
    return {"openapi": "3.0.2", "info": {"title": "c09", "version": "1"}, "paths": paths}


_W: dict[str, Any] = {}
ENV = {"PATH": "/usr/bin:/bin", "HOME": "/nonexistent", "LC_ALL": "C"}
CURL_TIMEOUT_S = 20


def init_worker() -> None:
    """One recording server per scheme per worker process, started after the fork; daemon threads die with the process."""
    if _W.get("pid") == os.getpid():
        return
    import schemathesis
    from schemathesis.core.output import OutputConfig

    _W.clear()
    _W["pid"] = os.getpid()
    warnings.filterwarnings("ignore", message="Unverified HTTPS request")
    for scheme in ("http", "https"):
        server = _Server(_self_signed_context() if scheme == "https" else None)
        threading.Thread(target=server.serve_forever, kwargs={"poll_interval": 0.05}, daemon=True, name=f"c09-{scheme}").start()
        _W[scheme] = server
        for sanitize in (False, True):
            schema = schemathesis.openapi.from_dict(document()).configure(
                base_url=f"{scheme}://127.0.0.1:{server.port}", output=OutputConfig(sanitize=sanitize))
            _W[scheme, sanitize] = schema


# ---------------------------------------------------------------------------------------------------------------------
# the oracle: two wire recordings -> list of differences.  Written from the property text; does not call Schemathesis.

AUTO_HEADERS = {"user-agent", "accept", "accept-encoding", "connection", "host", "content-length", "transfer-encoding", "expect",
                "x-schemathesis-testcaseid"}
SANITIZED_NAMES = {"authorization", "cookie"}  # names of this harness' document that the sanitiser documents as sensitive
REPLACEMENT = "[Filtered]"
_UNRESERVED = set(b"ABCDEFGHIJKLMNOPQRSTUVWXYZabcdefghijklmnopqrstuvwxyz0123456789-._~")


def split_request_line(line: bytes) -> tuple[bytes, bytes, bytes]:
    line = line.rstrip(b"\r\n")
    method, _, rest = line.partition(b" ")
    target, _, version = rest.rpartition(b" ")
    return method, target, version


def normalize_target(target: bytes) -> bytes:
    """RFC 3986 6.2.2: upper-case the hex digits of escapes, decode escapes of unreserved characters. Nothing else."""

    def repl(m: re.Match) -> bytes:
        byte = int(m.group(1), 16)
        return bytes([byte]) if byte in _UNRESERVED else b"%" + m.group(1).upper()

    return re.sub(rb"%([0-9A-Fa-f]{2})", repl, target)


def _boundary(content_type: str | None) -> str | None:
    if content_type is None or not content_type.lower().startswith("multipart/"):
        return None
    m = re.search(r'boundary="?([^";]+)"?', content_type)
    return m.group(1) if m else None


def compare(orig: dict, repro: dict, *, sanitize: bool, explicit: frozenset = frozenset()) -> list[tuple[str, dict, dict]]:
    """-> [(lost, facts, info)]: what the reproduced request lost, facts for the signature, detail."""
    out: list[tuple[str, dict, dict]] = []
    m1, t1, _ = split_request_line(orig["line"])
    m2, t2, _ = split_request_line(repro["line"])
    if m1 != m2:
        out.append(("method", {}, {"original": m1, "reproduced": m2}))
    if t1 != t2 and normalize_target(t1) != normalize_target(t2):
        out.append(("target", {}, {"original": t1, "reproduced": t2}))
    # headers
    # a header the case itself carries is not "added on their own" by curl / requests, whatever its name
    auto = AUTO_HEADERS - explicit
    h1 = sorted((k.lower(), v) for k, v in orig["headers"] if k.lower() not in auto)
    h2 = sorted((k.lower(), v) for k, v in repro["headers"] if k.lower() not in auto)
    ct1 = next((v for k, v in h1 if k == "content-type"), None)
    ct2 = next((v for k, v in h2 if k == "content-type"), None)
    b1, b2 = _boundary(ct1), _boundary(ct2)
    body1, body2 = orig["body"], repro["body"]
    if b1 is not None:
        # multipart: the boundary token is random per serialisation; each request must be framed by the boundary it announces
        if not body1.startswith(b"--" + b1.encode("latin-1")):
            raise AssertionError("the original multipart request is not framed by its own boundary")
        framed = b2 is not None and body2.startswith(b"--" + b2.encode("latin-1")) and body2.rstrip(b"\r\n").endswith(b"--" + b2.encode("latin-1") + b"--")
        if not framed:
            used = re.match(rb"--([^\r\n]+)", body2)
            out.append(("body", {"how": "multipart_boundary_mismatch"},
                        {"announced": ct2, "body_starts_with": body2[:60], "boundary_in_body": used.group(1) if used else None}))
            b2_body = used.group(1).decode("latin-1") if used else None
        else:
            b2_body = b2
        body1 = body1.replace(b1.encode("latin-1"), b"BOUNDARY")
        if b2_body:
            body2 = body2.replace(b2_body.encode("latin-1"), b"BOUNDARY")
        h1 = sorted((k, v.replace(b1, "BOUNDARY") if k == "content-type" else v) for k, v in h1)
        if b2:
            h2 = sorted((k, v.replace(b2, "BOUNDARY") if k == "content-type" else v) for k, v in h2)
    if body1 != body2:
        out.append(("body", {"how": "content", "reproduced_body_empty": body2 == b""}, {"original": body1, "reproduced": body2}))
    rest2 = list(h2)
    for name, value in h1:
        if (name, value) in rest2:
            rest2.remove((name, value))
            continue
        same_name = [v for k, v in rest2 if k == name]
        if same_name:
            rest2.remove((name, same_name[0]))
            if sanitize and name in SANITIZED_NAMES and same_name[0] == REPLACEMENT:
                continue  # "with it enabled, only the redacted values may differ"
            out.append(("header", {"header": name, "how": "changed"}, {"original": value, "reproduced": same_name[0]}))
        else:
            out.append(("header", {"header": name, "how": "missing"}, {"original": value}))
    for name, value in rest2:
        if name == "content-type" and ct1 is None:
            continue  # curl adds a Content-Type on its own when it is given data
        out.append(("header", {"header": name, "how": "added"}, {"reproduced": value}))
    return out


# ---------------------------------------------------------------------------------------------------------------------


def build_case(item: dict, marker: str) -> Any:
    part, method = item["part"], item["method"]
    value = build_value(item["char"], item["pos"], item.get("second"))
    schema = _W[item["scheme"], item["sanitize"]]
    kwargs: dict[str, Any] = {"path_parameters": {"m": marker}}
    prefix = "/fail" if item.get("entry") == "failure_message" else "/c"
    path = prefix + "/{m}"
    if part == "header":
        kwargs["headers"] = {"X-T": value}
    elif part == "header_accept":
        kwargs["headers"] = {"Accept": value}  # a name of curl.get_excluded_headers(), but carried by the case itself
    elif part == "cookie":
        kwargs["cookies"] = {"ck": value}
    elif part == "query":
        kwargs["query"] = {"q": value}
    elif part == "path_raw":
        path = prefix + "/{m}/{p}"
        kwargs["path_parameters"]["p"] = value
    elif part == "path_gen":
        path = prefix + "/{m}/{p}"
        kwargs["path_parameters"]["p"] = quote_plus(value)  # the form in which generated cases carry path values
    elif part in EMPTY_PAYLOAD_PARTS:
        kind, payload = EMPTY_PAYLOAD_PARTS[part]
        kwargs["body"] = copy.deepcopy(payload)
        kwargs["media_type"] = MEDIA[kind]
    elif part in ("text", "json"):
        kwargs["body"] = value
        kwargs["media_type"] = MEDIA[part]
    else:
        kwargs["body"] = {"f": value}
        kwargs["media_type"] = MEDIA[part]
    if item["sanitize"] and not part.startswith("header"):
        kwargs["headers"] = {"Authorization": "Bearer s3cr3t"}
    elif item["sanitize"]:
        kwargs["headers"]["Authorization"] = "Bearer s3cr3t"
    return schema[path][method].Case(**kwargs), value


def _shape_body(spec: dict) -> Any:
    kind, value = spec["t"], spec["v"]
    if kind == "bytes":
        return value.encode("utf-8")
    if kind == "obj":
        return {k: copy.deepcopy(v) for k, v in value}  # insertion order = the enumerated writing order
    return copy.deepcopy(value)


def build_shape_case(item: dict, marker: str) -> tuple[Any, dict[str, Any], frozenset, frozenset]:
    """-> (case, kwargs for call(), names of headers somebody wrote down, names among them that only call() was given)."""
    schema = _W[item["scheme"], item["sanitize"]]
    spec, call = item["case"], item.get("call") or {}
    kwargs: dict[str, Any] = {"path_parameters": {"m": marker}}
    for container in ("headers", "cookies", "query"):
        if container in spec:
            kwargs[container] = {k: copy.deepcopy(v) for k, v in spec[container]}
    if "body" in spec:
        kwargs["body"] = _shape_body(spec["body"])
    if "media_type" in spec:
        kwargs["media_type"] = spec["media_type"]
    call_kwargs: dict[str, Any] = {}
    if "headers" in call:
        call_kwargs["headers"] = {k: v for k, v in call["headers"]}
    if "cookies" in call:
        call_kwargs["cookies"] = {k: v for k, v in call["cookies"]}
    if "auth" in call:
        call_kwargs["auth"] = tuple(call["auth"])
    in_case = frozenset(k.lower() for k, _ in spec.get("headers", []))
    in_call = frozenset(k.lower() for k, _ in call.get("headers", []))
    prefix = "/fail" if item["entry"] == "failure_message" else "/c"
    return schema[prefix + "/{m}"][item["method"]].Case(**kwargs), call_kwargs, in_case | in_call, in_call - in_case


def _port_free(text: Any, port: int) -> Any:
    if isinstance(text, bytes):
        text = text.decode("utf-8", "backslashreplace")
    if isinstance(text, str):
        return text.replace(f"127.0.0.1:{port}", "127.0.0.1:PORT")
    if isinstance(text, dict):
        return {k: _port_free(v, port) for k, v in text.items()}
    if isinstance(text, (list, tuple)):
        return [_port_free(v, port) for v in text]
    return text


def _wire(record: dict, port: int) -> dict:
    return _port_free({"line": record["line"], "headers": [list(h) for h in record["headers"]], "body": record["body"]}, port)


ENGINE_SCENARIOS = [
    # (how credentials are configured, generation of the rest)
    {"kind": "engine", "auth": "header", "op": "sec"},
    {"kind": "engine", "auth": "set_query", "op": "sec"},
    {"kind": "engine", "auth": "none", "op": "fail"},
    {"kind": "engine", "auth": "header", "op": "fail"},
    # review round 2: headers of the run configuration (`st run -H ...`) - a name of their own / a name requests also sets by default;
    # a failing operation with a payload; the coverage phase; the stateful phase (its executor records the command on its own)
    {"kind": "engine", "auth": "none", "op": "fail", "config_headers": [["X-U", "it's 1"], ["x-w", "2"]]},
    {"kind": "engine", "auth": "none", "op": "fail", "config_headers": [["User-Agent", "c09/1 (x)"]]},
    {"kind": "engine", "auth": "none", "op": "fail", "config_headers": [["accept", "text/x-c09"]]},
    {"kind": "engine", "auth": "none", "op": "failpost"},
    {"kind": "engine", "auth": "none", "op": "failpost", "phase": "coverage"},
    {"kind": "engine", "auth": "none", "op": "fail", "phase": "coverage"},
    {"kind": "engine", "auth": "none", "op": "chain", "phase": "stateful"},
    {"kind": "engine", "auth": "header", "op": "chain", "phase": "stateful"},
]


def engine_document() -> dict:
    string = {"type": "string"}
    return {
        "openapi": "3.0.2", "info": {"title": "c09e", "version": "1"},
        "components": {"securitySchemes": {"K": {"type": "apiKey", "in": "query", "name": "api_key"},
                                           "B": {"type": "http", "scheme": "bearer"}}},
        "paths": {
            "/e/sec": {"get": {"security": [{"K": []}, {"B": []}],
                               "parameters": [{"name": "q", "in": "query", "schema": {"type": "string", "enum": ["a b", "x'y"]}}],
                               "responses": {"200": {"description": "OK"}, "401": {"description": "NO"}}}},
            "/e/fail": {"get": {"parameters": [{"name": "q", "in": "query", "schema": {"type": "string", "enum": ["a b", "it's"]}},
                                               {"name": "X-T", "in": "header", "schema": {"type": "string", "enum": ["v 1"]}}],
                                "responses": {"200": {"description": "OK"}}}},
            "/e/failpost": {"post": {"parameters": [{"name": "q", "in": "query", "schema": {"type": "string", "enum": ["a&b"]}}],
                                     "requestBody": {"required": True, "content": {"application/json": {"schema": {
                                         "type": "object", "required": ["k"], "additionalProperties": False,
                                         "properties": {"k": {"type": "string", "enum": ["it's", "a \"b\"", "@x"]}}}}}},
                                     "responses": {"200": {"description": "OK"}}}},
            # stateful: POST /e/mk answers 200; its link feeds GET /e/fail/{id} (500) from the REQUEST (the server sends no payload)
            "/e/mk": {"post": {"security": [{"B": []}], "parameters": [{"name": "q", "in": "query", "required": True, "schema": {"type": "string", "enum": ["a b", "it's"]}}],
                               "responses": {"200": {"description": "OK", "links": {"L": {"operationId": "getFail", "parameters": {"id": "$request.query.q"}}}}}}},
            "/e/fail/{id}": {"get": {"operationId": "getFail",
                                     "parameters": [{"name": "id", "in": "path", "required": True, "schema": {"type": "string", "enum": ["a b", "it's"]}}],
                                     "responses": {"200": {"description": "OK"}}}},
        },
    }


ENGINE_PATHS = {"sec": ["/e/sec"], "fail": ["/e/fail"], "failpost": ["/e/failpost"], "chain": ["/e/mk", "/e/fail/{id}"]}


def check_engine_item(item: dict, tier: str) -> Result:
    """The 'Reproduce with' command as the ENGINE records it for a failed check (code_sample), incl. failures that a check
    reports on a case it derived itself (ignored_auth strips / replaces credentials)."""
    import schemathesis
    from schemathesis.checks import not_a_server_error
    from schemathesis.core.output import OutputConfig
    from schemathesis.engine import from_schema
    from schemathesis.generation.overrides import Override
    from schemathesis.specs.openapi.checks import ignored_auth

    from mc import engine as mc_engine

    init_worker()
    res = Result()
    server: _Server = _W["http"]
    port = server.port
    doc = engine_document()
    doc["paths"] = {keep: doc["paths"][keep] for keep in ENGINE_PATHS[item["op"]]}
    schema = schemathesis.openapi.from_dict(doc).configure(base_url=f"http://127.0.0.1:{port}", output=OutputConfig(sanitize=False))
    headers = {"Authorization": "Bearer SECRET"} if item["auth"] == "header" else {}
    headers.update({k: v for k, v in item.get("config_headers", [])})
    configured = frozenset(k.lower() for k in headers)
    phase = item.get("phase", "fuzzing")
    override = Override(query={"api_key": "QSECRET"}, headers={}, cookies={}, path_parameters={}) if item["auth"] == "set_query" else None
    config = mc_engine.make_config(phases=[phase], max_examples=3, checks=[not_a_server_error, ignored_auth], headers=headers, override=override,
                                   stateful_step_count=3 if phase == "stateful" else None)
    server.drain()
    events = list(from_schema(schema, config=config).execute())
    res.evaluations += 1
    records = [r for r in server.drain() if not r.get("error")]
    by_case_id: dict[str, dict] = {}
    for r in records:
        cid = next((v for k, v in r["headers"] if k.lower() == "x-schemathesis-testcaseid"), None)
        if cid is not None:
            by_case_id[cid] = r
    failed = []
    for e in events:
        if type(e).__name__ == "ScenarioFinished":
            for case_id, checks in e.recorder.checks.items():
                for c in checks:
                    if c.failure_info is not None:
                        failed.append((c.name, case_id, c.failure_info.code_sample))
    res.states += len(records)
    if not failed:
        res.outcomes.add("engine_no_failure")
        res.count("engine_runs_without_failure")
        return res
    seen = set()
    for name, case_id, command in failed:
        if (case_id, command) in seen:
            continue
        seen.add((case_id, command))
        original = by_case_id.get(case_id)
        sig_base = {"part": "engine_code_sample", "check": name, "auth": item["auth"]}
        if phase != "fuzzing":
            sig_base["phase"] = phase
        if item["op"] not in ("sec", "fail"):
            sig_base["op"] = item["op"]
        detail = {"item": item, "case_id": case_id, "command": _port_free(command, port)}
        if original is None:
            res.violation({**sig_base, "lost": "original_request_of_failing_case_not_on_the_wire"}, detail)
            continue
        try:
            proc = subprocess.run(["sh", "-c", command], stdin=subprocess.DEVNULL, capture_output=True, timeout=CURL_TIMEOUT_S, cwd="/", env=ENV)
        except subprocess.TimeoutExpired:
            res.oracle_errors.append({"error": "curl timeout (engine item)", "command": detail["command"]})
            continue
        res.count("curl_runs")
        res.traces += 1
        reproduced = [r for r in server.drain() if not r.get("error")]
        res.nontriv([item, name, detail["command"]])
        res.count(f"engine_code_samples_judged:{name}")
        res.count(f"engine_code_samples_judged_in_phase:{phase}")
        if len(reproduced) != 1:
            res.violation({**sig_base, "lost": "request", "requests": len(reproduced), "curl_exit": proc.returncode}, detail)
            continue
        res.transitions += 1
        differences = compare(original, reproduced[0], sanitize=False, explicit=configured)
        if not differences:
            res.outcomes.add("engine_reproduced")
            res.count(f"engine_reproduced_in_phase:{phase}")
            continue
        res.outcomes.add("engine_differs")
        for lost, facts, info in differences:
            sig = {**sig_base, "lost": lost, **facts}
            if lost == "header" and facts.get("header") in configured:
                # the header was written down in the run configuration, not by the case
                sig["given_to_call_only"] = True
                sig["name_is_a_default_of_requests"] = facts["header"] in {n.lower() for n in c09_extra.REQUESTS_DEFAULT_NAMES}
            res.violation(sig,
                          detail | {"difference": _port_free(info, port), "original": _wire(original, port), "reproduced": _wire(reproduced[0], port)})
    return res


def check_item(item: dict, tier: str) -> Result:
    if item.get("kind") == "engine":
        return check_engine_item(item, tier)
    init_worker()
    res = Result()
    server: _Server = _W[item["scheme"]]
    port = server.port
    entry = item.get("entry", "response_headers")
    explicit: frozenset = frozenset()
    outside_case: frozenset = frozenset()  # header names that were given to call() only
    call_kwargs: dict[str, Any] = {}
    if item.get("kind") == "shape":
        marker = "k" + digest([item["shape"], entry, item["scheme"], item["sanitize"]])
        case, call_kwargs, explicit, outside_case = build_shape_case(item, marker)
        # the writing order stays in the detail (it is part of the shape's name): one defect is not one signature per order
        sig_base: dict[str, Any] = {"part": "shape", "dim": item["dim"], **{k: v for k, v in item["facts"].items() if k != "order"}}
        detail: dict[str, Any] = {"shape": item["shape"], "case": item["case"], "call": item.get("call"), "method": item["method"],
                                  "scheme": item["scheme"], "sanitize": item["sanitize"]}
        label = f"shape:{item['dim']}"
        distinct = [item["shape"], entry, item["scheme"], item["sanitize"]]
        special = True
    else:
        marker = "k" + digest([item.get(k) for k in ("part", "char", "second", "pos", "method", "scheme", "sanitize")] + ([entry] if "entry" in item else []))
        case, value = build_case(item, marker)
        value_leads = value.startswith(CHAR[item["char"]]) if item["char"] != "empty" else True
        sig_base = {"part": item["part"], "char": item["char"], "leading": value_leads}
        if item["part"] in ("header", "header_accept"):
            sig_base["part"] = "header"
            sig_base["name"] = "Accept" if item["part"] == "header_accept" else "X-T"
            explicit = frozenset([sig_base["name"].lower()])
        if item.get("second"):
            sig_base["second"] = item["second"]
        if item["method"] in EXTRA_METHODS:
            sig_base["method"] = item["method"]
        detail = {"value": value, "method": item["method"], "pos": item["pos"], "scheme": item["scheme"], "sanitize": item["sanitize"]}
        label = item["part"]
        distinct = [item["part"], value, item["method"], item["scheme"], item["sanitize"]] + ([entry] if "entry" in item else [])
        special = item["char"] not in ("a", "empty")
    if item["scheme"] != "http":
        sig_base["scheme"] = item["scheme"]
    if item["sanitize"]:
        sig_base["sanitize"] = True
    if entry != "response_headers":
        sig_base["entry"] = entry
        detail["entry"] = entry
    res.states += 1
    server.drain()
    # (1) the original request, sent by Schemathesis
    if item["scheme"] == "https":
        call_kwargs["verify"] = False
    failure_text: str | None = None
    try:
        if entry == "failure_message":
            from schemathesis.checks import not_a_server_error
            from schemathesis.core.failures import FailureGroup

            try:
                case.call_and_validate(checks=[not_a_server_error], **call_kwargs)
            except FailureGroup as group:
                failure_text = group.message
            response = None
        else:
            response = case.call(**call_kwargs)
    except Exception as exc:  # noqa: BLE001 - nothing was sent: there is no request to reproduce
        res.evaluations += 1
        res.outcomes.add("original_unsendable")
        res.count(f"original_unsendable:{type(exc).__name__}")
        leftovers = [r for r in server.drain() if not r.get("error")]
        if leftovers:
            res.oracle_errors.append({"error": "case.call() raised but a request was recorded", "item": item, "exc": repr(exc)[:300]})
        return res
    res.evaluations += 1
    originals = [r for r in server.drain() if not r.get("error")]
    if len(originals) != 1 or marker.encode() not in originals[0]["line"]:
        res.oracle_errors.append({"error": f"expected exactly one recording of the original request, got {len(originals)}", "item": item})
        return res
    original = originals[0]
    res.transitions += 1
    if original["folded"]:
        # a header value with a line break went out as an obs-fold (http.client lets "\n " through): not a header value in the
        # sense of the property ("ASCII header values ... quotes, backslashes, spaces and empty values") - left undecided
        res.outcomes.add("original_has_folded_header")
        res.count("original_has_folded_header")
        return res
    # (2) the command exactly as Schemathesis prints it for this request
    if entry == "failure_message":
        # the harness' server answered 500 and not_a_server_error was the check: a failure with its "Reproduce with" block is due
        if failure_text is None or REPRODUCE_MARKER not in failure_text:
            res.oracle_errors.append({"error": "call_and_validate on a 500 response raised no FailureGroup with a 'Reproduce with' block",
                                      "item": item, "message": (failure_text or "")[-400:]})
            return res
        command = failure_text[failure_text.index(REPRODUCE_MARKER) + len(REPRODUCE_MARKER):]
    else:
        try:
            if entry == "bare":
                command = case.as_curl_command()
            else:
                command = case.as_curl_command(headers=dict(response.request.headers), verify=response.verify)
        except Exception as exc:  # noqa: BLE001
            res.outcomes.add("no_command")
            res.traces += 1
            res.violation({**sig_base, "lost": "command", "error": type(exc).__name__}, detail | {"error": repr(exc)[:300]})
            return res
    res.evaluations += 1
    detail["command"] = _port_free(command, port)
    detail["original"] = _wire(original, port)
    # (3) run it: POSIX shell + real curl
    try:
        proc = subprocess.run(["sh", "-c", command], stdin=subprocess.DEVNULL, capture_output=True, timeout=CURL_TIMEOUT_S, cwd="/", env=ENV)
    except subprocess.TimeoutExpired:
        res.oracle_errors.append({"error": f"curl did not finish within {CURL_TIMEOUT_S}s", "item": item, "command": detail["command"]})
        return res
    res.count("curl_runs")
    res.traces += 1
    recordings = server.drain()
    reproduced = [r for r in recordings if not r.get("error")]
    detail["curl_exit"] = proc.returncode
    if proc.returncode != 0:
        detail["curl_stderr"] = _port_free(proc.stderr[-300:], port)
    for r in reproduced:
        if marker.encode() not in r["line"]:
            res.oracle_errors.append({"error": "a recording without this case's marker", "item": item, "line": repr(r["line"])})
            return res
    res.nontriv(distinct)
    if len(reproduced) == 0:
        res.outcomes.add("no_request_reproduced")
        res.violation({**sig_base, "lost": "request", "curl_exit": proc.returncode}, detail)
        return res
    res.transitions += len(reproduced)
    if len(reproduced) > 1:
        res.outcomes.add("several_requests")
        res.violation({**sig_base, "lost": "single_request", "requests": len(reproduced)}, detail | {"reproduced": [_wire(r, port) for r in reproduced]})
        return res
    # (4) compare the two wire requests
    differences = compare(original, reproduced[0], sanitize=item["sanitize"], explicit=explicit)
    if not differences:
        res.outcomes.add("reproduced")
        res.count(f"reproduced:{label}")
        res.count(f"reproduced_entry:{entry}")
        res.count(f"reproduced_method:{item['method']}")
        if item["scheme"] == "https":
            res.count("reproduced_over_https")
        if item["sanitize"]:
            res.count("reproduced_with_sanitisation_on")
        if special:
            res.count("reproduced_special_character")
        if len(res.samples) < 2:
            res.samples.append({"item": item, "command": detail["command"], "wire": detail["original"]["line"]})
        return res
    res.outcomes.add("differs")
    detail["reproduced"] = _wire(reproduced[0], port)
    for lost, facts, info in differences:
        sig = {**sig_base, "lost": lost, **facts}
        if facts.get("how") == "multipart_boundary_mismatch":
            # the fact compares boundary tokens only: it does not depend on the enumerated value
            sig = {k: v for k, v in sig.items() if k not in ("char", "leading", "second", "method")}
        if lost == "header" and facts.get("header") in outside_case:
            # the header was written down by the caller of call(), not by the case
            # (one signature per header name: the spelling, the entry point and the sanitiser play no role in this fact)
            sig = {"part": "shape", "dim": item["dim"], "lost": lost, **facts, "given_to_call_only": True,
                   "name_is_a_default_of_requests": facts["header"] in {n.lower() for n in c09_extra.REQUESTS_DEFAULT_NAMES}}
        res.violation(sig, detail | {"difference": _port_free(info, port)})
    return res


def vacuity(total: Result, tier: str) -> list[str]:
    out = []
    c = total.counters
    if c.get("curl_runs", 0) == 0:
        out.append("curl was never executed")
    for part in [*PARTS, *EMPTY_PAYLOAD_PARTS]:
        if c.get(f"reproduced:{part}", 0) == 0 and not part.startswith("multipart"):
            out.append(f"no case of part {part} was reproduced faithfully: the comparison cannot succeed")
    if c.get("reproduced_over_https", 0) == 0:
        out.append("no case was reproduced over https (the --insecure slice decided nothing)")
    if c.get("reproduced_with_sanitisation_on", 0) == 0:
        out.append("no case was reproduced with sanitisation on")
    if c.get("reproduced_special_character", 0) == 0:
        out.append("no case with a special character was reproduced")
    # review round 2: every added dimension must have decided something
    for dim in ("pair", "header_name", "body_shape"):
        if c.get(f"reproduced:shape:{dim}", 0) == 0:
            out.append(f"no request shape of dimension {dim} was reproduced faithfully")
    for entry in ENTRIES:
        if c.get(f"reproduced_entry:{entry}", 0) == 0:
            out.append(f"no command read from {entry} was reproduced faithfully")
    for method in ["GET", "POST", "PUT", *EXTRA_METHODS]:
        if c.get(f"reproduced_method:{method}", 0) == 0:
            out.append(f"no {method} request was reproduced faithfully")
    for phase in ("fuzzing", "coverage", "stateful"):
        if c.get(f"engine_reproduced_in_phase:{phase}", 0) == 0:
            out.append(f"no command recorded by the engine in the {phase} phase was reproduced faithfully")
    if len(total.outcomes) < 2:
        out.append("a single outcome class")
    if total.traces < 0.5 * total.states:
        out.append("more than half of the enumerated cases never reached curl")
    return out
