"""C09 - the printed "Reproduce with" curl command re-sends the same request.

Executed differential (no text comparison): every case of a finite product (request part x character x position x method)
is built as a real ``Case`` of a real operation, sent by Schemathesis (``case.call()``) to a loopback recording server,
then the command Schemathesis would print (``case.as_curl_command(headers=dict(response.request.headers),
verify=response.verify)`` - the expression used by ``Case.validate_response``, the CLI and, through
``ScenarioRecorder.find_failure_data``, by the engine) is executed by the real ``sh`` with the real ``curl`` against the
same server.  The two recorded wire requests are compared: method, request-target bytes, body bytes, header multiset
minus the headers curl / requests add on their own.
"""

from __future__ import annotations

import copy
import os
import re
import socketserver
import ssl
import subprocess
import tempfile
import threading
import warnings
from typing import Any
from urllib.parse import quote_plus

from mc.runner import Result, digest

ID = "C09"
LEVEL = "exploration"
ENGINES = ["E2"]
TECHNIQUE = (
    "exhaustive enumeration of a finite input product (request part x character x position x method, plus ordered "
    "character pairs in the thorough tier), each case decided by an executed differential: the request Schemathesis sends "
    "and the request its printed curl command sends (real sh + real curl) are both recorded on the wire by a loopback "
    "server and compared field by field"
)
RULE = (
    "work item = one case: request part in {header X-T, header Accept (a name curl.py filters unless the case carries it), cookie, query, path (raw value), path (quote_plus'ed value as the "
    "generator produces it), text/plain body, JSON string body, urlencoded form field, multipart field} x string built from a "
    "character of a 16-character alphabet at a position in {alone, a+c, c+a, a+c+a} (thorough: also every ordered pair of two "
    "distinct special characters) x method in {GET, POST, PUT} (bodies: POST, PUT) x scheme {http; https+verify=False slice} x "
    "sanitisation {off; on slice}; distinct = distinct (part, string, method, scheme, sanitise) tuples; a case is non-trivial "
    "when the original request reached the wire and the curl command was executed and judged"
)
BOUNDS = {
    "quick": {"characters": 16, "positions": 4, "methods": 3, "character_pairs": False, "https_slice": "3 characters, alone, POST",
              "sanitize_slice": "all characters, alone, POST"},
    "thorough": {"characters": 16, "positions": 4, "methods": 3, "character_pairs": "all ordered pairs of 14 special characters x 4 positions x all methods",
                 "https_slice": "all characters x 4 positions, POST", "sanitize_slice": "all characters x 4 positions, POST"},
}
BUDGET_S = {"quick": 120, "thorough": 1800}
CHUNK = 8
ASSUMPTIONS = [
    "header and cookie values are ASCII, payloads are text (as the property restricts); strings longer than 3 characters and "
    "characters outside the 16-character alphabet are not enumerated",
    "headers ignored on both sides because curl / requests / Schemathesis add them on their own and curl.generate filters them "
    "by design: User-Agent, Accept, Accept-Encoding, Connection, Host, Content-Length, Transfer-Encoding, Expect, "
    "X-Schemathesis-TestCaseId; a Content-Type that only curl sends while the original had none is 'added by curl on its own'",
    "optional whitespace around header values is not significant (RFC 9110) and is stripped before comparison",
    "multipart bodies are compared modulo the (random) boundary token, but each request must be framed with the boundary its "
    "own Content-Type announces",
    "a case whose original request cannot be sent at all (requests rejects the header value) has no reproduction command and is "
    "counted as trivial; likewise a case whose header value went out with a line fold (cookie value containing newline+space, which "
    "http.client lets through as obs-fold): the property speaks of header values, a folded line is left undecided "
    "(observation: Case.as_curl_command raises InvalidHeader for it instead of printing a command)",
    "curl 7.88.1 and dash as installed in the sandbox are the environment; cwd=/ and an empty HOME (no ~/.curlrc), stdin closed",
    "with sanitisation on only names that the sanitiser documents as sensitive (here: Authorization, Cookie) may differ, and only by "
    "being replaced with [Filtered]",
]
LEVEL_TEXT = (
    "Every case of the stated finite product is executed on the real code, the real shell and the real curl and judged on the "
    "wire; nothing is sampled. This is exhaustive exploration of a stated finite input space, not a proof over all byte strings."
)
LEVEL_NOTE = (
    "Trusted: the recording server in this module (raw socket reader), curl and dash as the reference environment. Not covered: "
    "strings beyond the alphabet/length bound, binary payloads, non-ASCII header values, other shells."
)

# ---------------------------------------------------------------------------------------------------------------------
# the enumerated product

CHARS: list[tuple[str, str]] = [
    ("a", "a"), ("space", " "), ("squote", "'"), ("dquote", '"'), ("backslash", "\\"), ("dollar", "$"), ("backtick", "`"),
    ("at", "@"), ("newline", "\n"), ("semicolon", ";"), ("amp", "&"), ("hash", "#"), ("percent", "%"), ("bang", "!"),
    ("eacute", "é"), ("empty", ""),
    # characters of curl's URL globbing ({a,b} / [1-3]); harmless everywhere but in the URL
    ("lbracket", "["), ("rbracket", "]"), ("lbrace", "{"), ("rbrace", "}"),
]
CHAR = dict(CHARS)
POSITIONS = ["alone", "a+c", "c+a", "a+c+a"]
PARTS = ["header", "header_accept", "cookie", "query", "path_raw", "path_gen", "text", "json", "form", "multipart"]
# payloads that serialise to nothing: the request announces a media type and carries no body (value-independent parts)
EMPTY_PAYLOAD_PARTS = {"form_nofields": ("form", {}), "form_empty_array": ("form", {"f": []}), "multipart_nofields": ("multipart", {}),
                       "json_null": ("json", None)}
BODY_PARTS = {"text", "json", "form", "multipart", *EMPTY_PAYLOAD_PARTS}
ASCII_ONLY_PARTS = {"header", "header_accept", "cookie"}
MEDIA = {"text": "text/plain", "json": "application/json", "form": "application/x-www-form-urlencoded", "multipart": "multipart/form-data"}


def build_value(char: str, pos: str, second: str | None = None) -> str:
    c = CHAR[char] + (CHAR[second] if second else "")
    return {"alone": c, "a+c": "a" + c, "c+a": c + "a", "a+c+a": "a" + c + "a"}[pos]


def _methods(part: str) -> list[str]:
    return ["POST", "PUT"] if part in BODY_PARTS else ["GET", "POST", "PUT"]


def items(tier: str, seed: int) -> list[dict]:
    out: list[dict] = []
    seen: set[str] = set()

    def add(part: str, char: str, pos: str, method: str, scheme: str = "http", sanitize: bool = False, second: str | None = None) -> None:
        if part in ASCII_ONLY_PARTS and "eacute" in (char, second):
            return
        value = build_value(char, pos, second)
        key = digest([part, value, method, scheme, sanitize])
        if key in seen:  # 'a' and the empty character give the same strings at several positions
            return
        seen.add(key)
        item = {"part": part, "char": char, "pos": pos, "method": method, "scheme": scheme, "sanitize": sanitize}
        if second:
            item["second"] = second
        out.append(item)

    # 1. the full single-character product, sanitisation off, plain http
    for pos in POSITIONS:
        for char, _ in CHARS:
            for part in PARTS:
                for method in _methods(part):
                    add(part, char, pos, method)
    # 2. https slice (self-signed certificate, verify=False -> the command needs --insecure)
    for part in PARTS:
        for char in ([n for n, _ in CHARS] if tier == "thorough" else ["a", "squote", "space"]):
            for pos in (POSITIONS if tier == "thorough" else ["alone"]):
                add(part, char, pos, "POST", scheme="https")
    # 3. sanitisation on: nothing but redacted values may differ
    for pos in (POSITIONS if tier == "thorough" else ["alone"]):
        for char, _ in CHARS:
            for part in PARTS:
                add(part, char, pos, "POST", sanitize=True)
    # 4. thorough: every ordered pair of two distinct special characters
    if tier == "thorough":
        special = [n for n, _ in CHARS if n not in ("a", "empty")]
        for first in special:
            for second in special:
                if first == second:
                    continue
                for part in PARTS:
                    for pos in POSITIONS:
                        for method in _methods(part):
                            add(part, first, pos, method, second=second)
    # 4b. media type announced, nothing (or a literal null) to send
    for part in EMPTY_PAYLOAD_PARTS:
        for method in _methods(part):
            add(part, "empty", "alone", method)
        add(part, "empty", "alone", "POST", scheme="https")
        add(part, "empty", "alone", "POST", sanitize=True)
    # 5. the command as the engine records it for failed checks (incl. checks that report on a case they derived)
    out.extend(dict(sc) for sc in ENGINE_SCENARIOS)
    return out


# ---------------------------------------------------------------------------------------------------------------------
# the recording server (raw: nothing of the request is parsed beyond what is needed to find the end of the body)


class _Recorder(socketserver.StreamRequestHandler):
    timeout = 10

    def setup(self) -> None:
        ctx = getattr(self.server, "tls", None)
        if ctx is not None:
            self.request = ctx.wrap_socket(self.request, server_side=True)
        super().setup()

    def handle(self) -> None:
        line = self.rfile.readline(65537)
        if not line:
            return
        headers: list[tuple[str, str]] = []
        folded = False
        while True:
            raw = self.rfile.readline(65537)
            if raw in (b"\r\n", b"\n", b""):
                break
            if raw[:1] in (b" ", b"\t") and headers:  # obs-fold: a header value that contains a line break
                folded = True
                headers[-1] = (headers[-1][0], headers[-1][1] + "\n" + raw.strip(b" \t\r\n").decode("latin-1"))
                continue
            name, _, value = raw.rstrip(b"\r\n").partition(b":")
            headers.append((name.decode("latin-1"), value.decode("latin-1").strip(" \t")))
        lower = {k.lower(): v for k, v in headers}
        if "100-continue" in lower.get("expect", "").lower():
            self.wfile.write(b"HTTP/1.1 100 Continue\r\n\r\n")
            self.wfile.flush()
        body = b""
        if "chunked" in lower.get("transfer-encoding", "").lower():
            while True:
                size = int(self.rfile.readline(100).split(b";")[0].strip() or b"0", 16)
                if size == 0:
                    while self.rfile.readline(65537) not in (b"\r\n", b"\n", b""):
                        pass
                    break
                body += self.rfile.read(size)
                self.rfile.readline(10)
        elif lower.get("content-length", "").isdigit():
            body = self.rfile.read(int(lower["content-length"]))
        with self.server.lock:
            self.server.records.append({"line": line, "headers": headers, "body": body, "folded": folded})
        status = b"500 Internal Server Error" if b"/fail" in line.split(b"?")[0] else b"200 OK"
        self.wfile.write(b"HTTP/1.1 " + status + b"\r\nContent-Length: 0\r\nConnection: close\r\n\r\n")


class _Server(socketserver.ThreadingTCPServer):
    daemon_threads = True
    allow_reuse_address = True
    request_queue_size = 64

    def __init__(self, tls: ssl.SSLContext | None = None) -> None:
        super().__init__(("127.0.0.1", 0), _Recorder)
        self.tls = tls
        self.records: list[dict] = []
        self.lock = threading.Lock()
        self.port = self.server_address[1]

    def handle_error(self, request: Any, client_address: Any) -> None:  # a client that gives up (TLS alert) is not our error
        with self.lock:
            self.records.append({"error": True})

    def drain(self) -> list[dict]:
        with self.lock:
            out, self.records = self.records, []
        return out


def _self_signed_context() -> ssl.SSLContext:
    """A throw-away self-signed certificate, generated in memory; the PEM file exists only while it is being loaded."""
    import datetime

    from cryptography import x509
    from cryptography.hazmat.primitives import hashes, serialization
    from cryptography.hazmat.primitives.asymmetric import ec
    from cryptography.x509.oid import NameOID
    import ipaddress

    key = ec.generate_private_key(ec.SECP256R1())
    name = x509.Name([x509.NameAttribute(NameOID.COMMON_NAME, "127.0.0.1")])
    now = datetime.datetime(2020, 1, 1)
    cert = (
        x509.CertificateBuilder().subject_name(name).issuer_name(name).public_key(key.public_key())
        .serial_number(1).not_valid_before(now).not_valid_after(datetime.datetime(2120, 1, 1))
        .add_extension(x509.SubjectAlternativeName([x509.IPAddress(ipaddress.ip_address("127.0.0.1"))]), critical=False)
        .sign(key, hashes.SHA256())
    )
    pem = key.private_bytes(serialization.Encoding.PEM, serialization.PrivateFormat.TraditionalOpenSSL, serialization.NoEncryption())
    pem += cert.public_bytes(serialization.Encoding.PEM)
    ctx = ssl.SSLContext(ssl.PROTOCOL_TLS_SERVER)
    with tempfile.NamedTemporaryFile(suffix=".pem") as fd:
        fd.write(pem)
        fd.flush()
        ctx.load_cert_chain(fd.name)
    return ctx


def document() -> dict:
    string = {"type": "string"}
    obj = {"type": "object", "properties": {"f": {"type": "string"}}}
    marker = {"name": "m", "in": "path", "required": True, "schema": string}
    common = [marker, {"name": "X-T", "in": "header", "schema": string}, {"name": "Accept", "in": "header", "schema": string}, {"name": "Authorization", "in": "header", "schema": string},
              {"name": "q", "in": "query", "schema": string}, {"name": "ck", "in": "cookie", "schema": string}]
    body = {"content": {"text/plain": {"schema": string}, "application/json": {"schema": string},
                        "application/x-www-form-urlencoded": {"schema": obj}, "multipart/form-data": {"schema": obj}}}
    paths: dict[str, dict] = {"/c/{m}": {}, "/c/{m}/{p}": {}}
    for method in ("get", "post", "put"):
        op: dict[str, Any] = {"parameters": common, "responses": {"200": {"description": "OK"}}}
        if method != "get":
            op["requestBody"] = body
        paths["/c/{m}"][method] = op
        paths["/c/{m}/{p}"][method] = {"parameters": [marker, {"name": "p", "in": "path", "required": True, "schema": string}],
                                       "responses": {"200": {"description": "OK"}}}
    return {"openapi": "3.0.2", "info": {"title": "c09", "version": "1"}, "paths": paths}


_W: dict[str, Any] = {}
ENV = {"PATH": "/usr/bin:/bin", "HOME": "/nonexistent", "LC_ALL": "C"}
CURL_TIMEOUT_S = 20


def init_worker() -> None:
    """One recording server per scheme per worker process, started after the fork; daemon threads die with the process."""
    if _W.get("pid") == os.getpid():
        return
    import schemathesis
    from schemathesis.core.output import OutputConfig

    _W.clear()
    _W["pid"] = os.getpid()
    warnings.filterwarnings("ignore", message="Unverified HTTPS request")
    for scheme in ("http", "https"):
        server = _Server(_self_signed_context() if scheme == "https" else None)
        threading.Thread(target=server.serve_forever, kwargs={"poll_interval": 0.05}, daemon=True, name=f"c09-{scheme}").start()
        _W[scheme] = server
        for sanitize in (False, True):
            schema = schemathesis.openapi.from_dict(document()).configure(
                base_url=f"{scheme}://127.0.0.1:{server.port}", output=OutputConfig(sanitize=sanitize))
            _W[scheme, sanitize] = schema


# ---------------------------------------------------------------------------------------------------------------------
# the oracle: two wire recordings -> list of differences.  Written from the property text; does not call Schemathesis.

AUTO_HEADERS = {"user-agent", "accept", "accept-encoding", "connection", "host", "content-length", "transfer-encoding", "expect",
                "x-schemathesis-testcaseid"}
SANITIZED_NAMES = {"authorization", "cookie"}  # names of this harness' document that the sanitiser documents as sensitive
REPLACEMENT = "[Filtered]"
_UNRESERVED = set(b"ABCDEFGHIJKLMNOPQRSTUVWXYZabcdefghijklmnopqrstuvwxyz0123456789-._~")


def split_request_line(line: bytes) -> tuple[bytes, bytes, bytes]:
    line = line.rstrip(b"\r\n")
    method, _, rest = line.partition(b" ")
    target, _, version = rest.rpartition(b" ")
    return method, target, version


def normalize_target(target: bytes) -> bytes:
    """RFC 3986 6.2.2: upper-case the hex digits of escapes, decode escapes of unreserved characters. Nothing else."""

    def repl(m: re.Match) -> bytes:
        byte = int(m.group(1), 16)
        return bytes([byte]) if byte in _UNRESERVED else b"%" + m.group(1).upper()

    return re.sub(rb"%([0-9A-Fa-f]{2})", repl, target)


def _boundary(content_type: str | None) -> str | None:
    if content_type is None or not content_type.lower().startswith("multipart/"):
        return None
    m = re.search(r'boundary="?([^";]+)"?', content_type)
    return m.group(1) if m else None


def compare(orig: dict, repro: dict, *, sanitize: bool, explicit: frozenset = frozenset()) -> list[tuple[str, dict, dict]]:
    """-> [(lost, facts, info)]: what the reproduced request lost, facts for the signature, detail."""
    out: list[tuple[str, dict, dict]] = []
    m1, t1, _ = split_request_line(orig["line"])
    m2, t2, _ = split_request_line(repro["line"])
    if m1 != m2:
        out.append(("method", {}, {"original": m1, "reproduced": m2}))
    if t1 != t2 and normalize_target(t1) != normalize_target(t2):
        out.append(("target", {}, {"original": t1, "reproduced": t2}))
    # headers
    # a header the case itself carries is not "added on their own" by curl / requests, whatever its name
    auto = AUTO_HEADERS - explicit
    h1 = sorted((k.lower(), v) for k, v in orig["headers"] if k.lower() not in auto)
    h2 = sorted((k.lower(), v) for k, v in repro["headers"] if k.lower() not in auto)
    ct1 = next((v for k, v in h1 if k == "content-type"), None)
    ct2 = next((v for k, v in h2 if k == "content-type"), None)
    b1, b2 = _boundary(ct1), _boundary(ct2)
    body1, body2 = orig["body"], repro["body"]
    if b1 is not None:
        # multipart: the boundary token is random per serialisation; each request must be framed by the boundary it announces
        if not body1.startswith(b"--" + b1.encode("latin-1")):
            raise AssertionError("the original multipart request is not framed by its own boundary")
        framed = b2 is not None and body2.startswith(b"--" + b2.encode("latin-1")) and body2.rstrip(b"\r\n").endswith(b"--" + b2.encode("latin-1") + b"--")
        if not framed:
            used = re.match(rb"--([^\r\n]+)", body2)
            out.append(("body", {"how": "multipart_boundary_mismatch"},
                        {"announced": ct2, "body_starts_with": body2[:60], "boundary_in_body": used.group(1) if used else None}))
            b2_body = used.group(1).decode("latin-1") if used else None
        else:
            b2_body = b2
        body1 = body1.replace(b1.encode("latin-1"), b"BOUNDARY")
        if b2_body:
            body2 = body2.replace(b2_body.encode("latin-1"), b"BOUNDARY")
        h1 = sorted((k, v.replace(b1, "BOUNDARY") if k == "content-type" else v) for k, v in h1)
        if b2:
            h2 = sorted((k, v.replace(b2, "BOUNDARY") if k == "content-type" else v) for k, v in h2)
    if body1 != body2:
        out.append(("body", {"how": "content", "reproduced_body_empty": body2 == b""}, {"original": body1, "reproduced": body2}))
    rest2 = list(h2)
    for name, value in h1:
        if (name, value) in rest2:
            rest2.remove((name, value))
            continue
        same_name = [v for k, v in rest2 if k == name]
        if same_name:
            rest2.remove((name, same_name[0]))
            if sanitize and name in SANITIZED_NAMES and same_name[0] == REPLACEMENT:
                continue  # "with it enabled, only the redacted values may differ"
            out.append(("header", {"header": name, "how": "changed"}, {"original": value, "reproduced": same_name[0]}))
        else:
            out.append(("header", {"header": name, "how": "missing"}, {"original": value}))
    for name, value in rest2:
        if name == "content-type" and ct1 is None:
            continue  # curl adds a Content-Type on its own when it is given data
        out.append(("header", {"header": name, "how": "added"}, {"reproduced": value}))
    return out


# ---------------------------------------------------------------------------------------------------------------------


def build_case(item: dict, marker: str) -> Any:
    part, method = item["part"], item["method"]
    value = build_value(item["char"], item["pos"], item.get("second"))
    schema = _W[item["scheme"], item["sanitize"]]
    kwargs: dict[str, Any] = {"path_parameters": {"m": marker}}
    path = "/c/{m}"
    if part == "header":
        kwargs["headers"] = {"X-T": value}
    elif part == "header_accept":
        kwargs["headers"] = {"Accept": value}  # a name of curl.get_excluded_headers(), but carried by the case itself
    elif part == "cookie":
        kwargs["cookies"] = {"ck": value}
    elif part == "query":
        kwargs["query"] = {"q": value}
    elif part == "path_raw":
        path = "/c/{m}/{p}"
        kwargs["path_parameters"]["p"] = value
    elif part == "path_gen":
        path = "/c/{m}/{p}"
        kwargs["path_parameters"]["p"] = quote_plus(value)  # the form in which generated cases carry path values
    elif part in EMPTY_PAYLOAD_PARTS:
        kind, payload = EMPTY_PAYLOAD_PARTS[part]
        kwargs["body"] = copy.deepcopy(payload)
        kwargs["media_type"] = MEDIA[kind]
    elif part in ("text", "json"):
        kwargs["body"] = value
        kwargs["media_type"] = MEDIA[part]
    else:
        kwargs["body"] = {"f": value}
        kwargs["media_type"] = MEDIA[part]
    if item["sanitize"] and not part.startswith("header"):
        kwargs["headers"] = {"Authorization": "Bearer s3cr3t"}
    elif item["sanitize"]:
        kwargs["headers"]["Authorization"] = "Bearer s3cr3t"
    return schema[path][method].Case(**kwargs), value


def _port_free(text: Any, port: int) -> Any:
    if isinstance(text, bytes):
        text = text.decode("utf-8", "backslashreplace")
    if isinstance(text, str):
        return text.replace(f"127.0.0.1:{port}", "127.0.0.1:PORT")
    if isinstance(text, dict):
        return {k: _port_free(v, port) for k, v in text.items()}
    if isinstance(text, (list, tuple)):
        return [_port_free(v, port) for v in text]
    return text


def _wire(record: dict, port: int) -> dict:
    return _port_free({"line": record["line"], "headers": [list(h) for h in record["headers"]], "body": record["body"]}, port)


ENGINE_SCENARIOS = [
    # (how credentials are configured, generation of the rest)
    {"kind": "engine", "auth": "header", "op": "sec"},
    {"kind": "engine", "auth": "set_query", "op": "sec"},
    {"kind": "engine", "auth": "none", "op": "fail"},
    {"kind": "engine", "auth": "header", "op": "fail"},
]


def engine_document() -> dict:
    string = {"type": "string"}
    return {
        "openapi": "3.0.2", "info": {"title": "c09e", "version": "1"},
        "components": {"securitySchemes": {"K": {"type": "apiKey", "in": "query", "name": "api_key"},
                                           "B": {"type": "http", "scheme": "bearer"}}},
        "paths": {
            "/e/sec": {"get": {"security": [{"K": []}, {"B": []}],
                               "parameters": [{"name": "q", "in": "query", "schema": {"type": "string", "enum": ["a b", "x'y"]}}],
                               "responses": {"200": {"description": "OK"}, "401": {"description": "NO"}}}},
            "/e/fail": {"get": {"parameters": [{"name": "q", "in": "query", "schema": {"type": "string", "enum": ["a b", "it's"]}},
                                               {"name": "X-T", "in": "header", "schema": {"type": "string", "enum": ["v 1"]}}],
                                "responses": {"200": {"description": "OK"}}}},
        },
    }


def check_engine_item(item: dict, tier: str) -> Result:
    """The 'Reproduce with' command as the ENGINE records it for a failed check (code_sample), incl. failures that a check
    reports on a case it derived itself (ignored_auth strips / replaces credentials)."""
    import schemathesis
    from schemathesis.checks import not_a_server_error
    from schemathesis.core.output import OutputConfig
    from schemathesis.engine import from_schema
    from schemathesis.generation.overrides import Override
    from schemathesis.specs.openapi.checks import ignored_auth

    from mc import engine as mc_engine

    init_worker()
    res = Result()
    server: _Server = _W["http"]
    port = server.port
    doc = engine_document()
    keep = "/e/sec" if item["op"] == "sec" else "/e/fail"
    doc["paths"] = {keep: doc["paths"][keep]}
    schema = schemathesis.openapi.from_dict(doc).configure(base_url=f"http://127.0.0.1:{port}", output=OutputConfig(sanitize=False))
    headers = {"Authorization": "Bearer SECRET"} if item["auth"] == "header" else {}
    override = Override(query={"api_key": "QSECRET"}, headers={}, cookies={}, path_parameters={}) if item["auth"] == "set_query" else None
    config = mc_engine.make_config(phases=["fuzzing"], max_examples=3, checks=[not_a_server_error, ignored_auth], headers=headers, override=override)
    server.drain()
    events = list(from_schema(schema, config=config).execute())
    res.evaluations += 1
    records = [r for r in server.drain() if not r.get("error")]
    by_case_id: dict[str, dict] = {}
    for r in records:
        cid = next((v for k, v in r["headers"] if k.lower() == "x-schemathesis-testcaseid"), None)
        if cid is not None:
            by_case_id[cid] = r
    failed = []
    for e in events:
        if type(e).__name__ == "ScenarioFinished":
            for case_id, checks in e.recorder.checks.items():
                for c in checks:
                    if c.failure_info is not None:
                        failed.append((c.name, case_id, c.failure_info.code_sample))
    res.states += len(records)
    if not failed:
        res.outcomes.add("engine_no_failure")
        res.count("engine_runs_without_failure")
        return res
    seen = set()
    for name, case_id, command in failed:
        if (case_id, command) in seen:
            continue
        seen.add((case_id, command))
        original = by_case_id.get(case_id)
        sig_base = {"part": "engine_code_sample", "check": name, "auth": item["auth"]}
        detail = {"item": item, "case_id": case_id, "command": _port_free(command, port)}
        if original is None:
            res.violation({**sig_base, "lost": "original_request_of_failing_case_not_on_the_wire"}, detail)
            continue
        try:
            proc = subprocess.run(["sh", "-c", command], stdin=subprocess.DEVNULL, capture_output=True, timeout=CURL_TIMEOUT_S, cwd="/", env=ENV)
        except subprocess.TimeoutExpired:
            res.oracle_errors.append({"error": "curl timeout (engine item)", "command": detail["command"]})
            continue
        res.count("curl_runs")
        res.traces += 1
        reproduced = [r for r in server.drain() if not r.get("error")]
        res.nontriv([item, name, detail["command"]])
        res.count(f"engine_code_samples_judged:{name}")
        if len(reproduced) != 1:
            res.violation({**sig_base, "lost": "request", "requests": len(reproduced), "curl_exit": proc.returncode}, detail)
            continue
        res.transitions += 1
        differences = compare(original, reproduced[0], sanitize=False)
        if not differences:
            res.outcomes.add("engine_reproduced")
            continue
        res.outcomes.add("engine_differs")
        for lost, facts, info in differences:
            res.violation({**sig_base, "lost": lost, **facts},
                          detail | {"difference": _port_free(info, port), "original": _wire(original, port), "reproduced": _wire(reproduced[0], port)})
    return res


def check_item(item: dict, tier: str) -> Result:
    if item.get("kind") == "engine":
        return check_engine_item(item, tier)
    init_worker()
    res = Result()
    server: _Server = _W[item["scheme"]]
    port = server.port
    marker = "k" + digest([item.get(k) for k in ("part", "char", "second", "pos", "method", "scheme", "sanitize")])
    case, value = build_case(item, marker)
    value_leads = value.startswith(CHAR[item["char"]]) if item["char"] != "empty" else True
    sig_base = {"part": item["part"], "char": item["char"], "leading": value_leads}
    explicit: frozenset = frozenset()
    if item["part"] in ("header", "header_accept"):
        sig_base["part"] = "header"
        sig_base["name"] = "Accept" if item["part"] == "header_accept" else "X-T"
        explicit = frozenset([sig_base["name"].lower()])
    if item.get("second"):
        sig_base["second"] = item["second"]
    if item["scheme"] != "http":
        sig_base["scheme"] = item["scheme"]
    if item["sanitize"]:
        sig_base["sanitize"] = True
    detail: dict[str, Any] = {"value": value, "method": item["method"], "pos": item["pos"], "scheme": item["scheme"], "sanitize": item["sanitize"]}
    res.states += 1
    server.drain()
    # (1) the original request, sent by Schemathesis
    call_kwargs = {"verify": False} if item["scheme"] == "https" else {}
    try:
        response = case.call(**call_kwargs)
    except Exception as exc:  # noqa: BLE001 - nothing was sent: there is no request to reproduce
        res.evaluations += 1
        res.outcomes.add("original_unsendable")
        res.count(f"original_unsendable:{type(exc).__name__}")
        leftovers = [r for r in server.drain() if not r.get("error")]
        if leftovers:
            res.oracle_errors.append({"error": "case.call() raised but a request was recorded", "item": item, "exc": repr(exc)[:300]})
        return res
    res.evaluations += 1
    originals = [r for r in server.drain() if not r.get("error")]
    if len(originals) != 1 or marker.encode() not in originals[0]["line"]:
        res.oracle_errors.append({"error": f"expected exactly one recording of the original request, got {len(originals)}", "item": item})
        return res
    original = originals[0]
    res.transitions += 1
    if original["folded"]:
        # a header value with a line break went out as an obs-fold (http.client lets "\n " through): not a header value in the
        # sense of the property ("ASCII header values ... quotes, backslashes, spaces and empty values") - left undecided
        res.outcomes.add("original_has_folded_header")
        res.count("original_has_folded_header")
        return res
    # (2) the command exactly as Schemathesis prints it for this request
    try:
        command = case.as_curl_command(headers=dict(response.request.headers), verify=response.verify)
    except Exception as exc:  # noqa: BLE001
        res.outcomes.add("no_command")
        res.traces += 1
        res.violation({**sig_base, "lost": "command", "error": type(exc).__name__}, detail | {"error": repr(exc)[:300]})
        return res
    res.evaluations += 1
    detail["command"] = _port_free(command, port)
    detail["original"] = _wire(original, port)
    # (3) run it: POSIX shell + real curl
    try:
        proc = subprocess.run(["sh", "-c", command], stdin=subprocess.DEVNULL, capture_output=True, timeout=CURL_TIMEOUT_S, cwd="/", env=ENV)
    except subprocess.TimeoutExpired:
        res.oracle_errors.append({"error": f"curl did not finish within {CURL_TIMEOUT_S}s", "item": item, "command": detail["command"]})
        return res
    res.count("curl_runs")
    res.traces += 1
    recordings = server.drain()
    reproduced = [r for r in recordings if not r.get("error")]
    detail["curl_exit"] = proc.returncode
    if proc.returncode != 0:
        detail["curl_stderr"] = _port_free(proc.stderr[-300:], port)
    for r in reproduced:
        if marker.encode() not in r["line"]:
            res.oracle_errors.append({"error": "a recording without this case's marker", "item": item, "line": repr(r["line"])})
            return res
    res.nontriv([item["part"], value, item["method"], item["scheme"], item["sanitize"]])
    if len(reproduced) == 0:
        res.outcomes.add("no_request_reproduced")
        res.violation({**sig_base, "lost": "request", "curl_exit": proc.returncode}, detail)
        return res
    res.transitions += len(reproduced)
    if len(reproduced) > 1:
        res.outcomes.add("several_requests")
        res.violation({**sig_base, "lost": "single_request", "requests": len(reproduced)}, detail | {"reproduced": [_wire(r, port) for r in reproduced]})
        return res
    # (4) compare the two wire requests
    differences = compare(original, reproduced[0], sanitize=item["sanitize"], explicit=explicit)
    if not differences:
        res.outcomes.add("reproduced")
        res.count(f"reproduced:{item['part']}")
        if item["scheme"] == "https":
            res.count("reproduced_over_https")
        if item["sanitize"]:
            res.count("reproduced_with_sanitisation_on")
        if item["char"] not in ("a", "empty"):
            res.count("reproduced_special_character")
        if len(res.samples) < 2:
            res.samples.append({"item": item, "command": detail["command"], "wire": detail["original"]["line"]})
        return res
    res.outcomes.add("differs")
    detail["reproduced"] = _wire(reproduced[0], port)
    for lost, facts, info in differences:
        sig = {**sig_base, "lost": lost, **facts}
        if facts.get("how") == "multipart_boundary_mismatch":
            # the fact compares boundary tokens only: it does not depend on the enumerated value
            sig = {k: v for k, v in sig.items() if k not in ("char", "leading", "second")}
        res.violation(sig, detail | {"difference": _port_free(info, port)})
    return res


def vacuity(total: Result, tier: str) -> list[str]:
    out = []
    c = total.counters
    if c.get("curl_runs", 0) == 0:
        out.append("curl was never executed")
    for part in [*PARTS, *EMPTY_PAYLOAD_PARTS]:
        if c.get(f"reproduced:{part}", 0) == 0 and not part.startswith("multipart"):
            out.append(f"no case of part {part} was reproduced faithfully: the comparison cannot succeed")
    if c.get("reproduced_over_https", 0) == 0:
        out.append("no case was reproduced over https (the --insecure slice decided nothing)")
    if c.get("reproduced_with_sanitisation_on", 0) == 0:
        out.append("no case was reproduced with sanitisation on")
    if c.get("reproduced_special_character", 0) == 0:
        out.append("no case with a special character was reproduced")
    if len(total.outcomes) < 2:
        out.append("a single outcome class")
    if total.traces < 0.5 * total.states:
        out.append("more than half of the enumerated cases never reached curl")
    return out
