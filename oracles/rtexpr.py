"""Independent reference for OpenAPI link runtime expressions.

Written from (and only from):

* OpenAPI 3.0.3, "Runtime Expressions" ABNF (Link Object section)::

      expression = ( "$url" / "$method" / "$statusCode" / "$request." source / "$response." source )
      source = ( header-reference / query-reference / path-reference / body-reference )
      header-reference = "header." token
      query-reference  = "query." name
      path-reference   = "path." name
      body-reference   = "body" ["#" json-pointer ]
      json-pointer     = *( "/" reference-token )
      reference-token  = *( unescaped / escaped )
      unescaped        = %x00-2E / %x30-7D / %x7F-10FFFF   ; '/' and '~' excluded
      escaped          = "~" ( "0" / "1" )                 ; '~' and '/'
      name  = *( CHAR )
      token = 1*tchar

  "Runtime expressions preserve the type of the referenced value.  Expressions can be embedded into string values by
  surrounding the expression with {} curly braces."  Link `parameters` / `requestBody` values are `Any | {expression}`:
  a constant or an expression.
* RFC 6901 (JSON Pointer): section 3 syntax, section 4 evaluation (``~1`` -> ``/`` first, then ``~0`` -> ``~``; array index
  is ``0`` or digits without leading zero; ``-`` names the non-existent element after the last one).
* OpenAPI 3.0.3 Responses Object: exact code, ``NXX`` range ("explicit code definition takes precedence over the range
  definition"), ``default`` = everything not covered individually.
* The one documented Schemathesis extension the property names: ``<header|query|path reference>#regex:<python regex with
  exactly one capturing group>``  (docs/stateful.rst "Extracting data from headers and query parameters").

Nothing in this file imports schemathesis.  Where the texts leave a case open the functions raise :class:`Undecided`; callers
count such cases and never alarm on them.
"""

from __future__ import annotations

import json
import re
from dataclasses import dataclass, field
from typing import Any

DIGITS = "0123456789"
ALPHA = "abcdefghijklmnopqrstuvwxyzABCDEFGHIJKLMNOPQRSTUVWXYZ"
TCHAR = set("!#$%&'*+-.^_`|~" + DIGITS + ALPHA)
# Names/tokens made of these characters cannot be confused with any other piece of expression syntax
PLAIN = set(DIGITS + ALPHA + "_-")
REGEX_MARK = "#regex:"


class _Unresolved:
    def __repr__(self) -> str:
        return "UNRESOLVED"


UNRESOLVED = _Unresolved()


class _Absent:
    def __repr__(self) -> str:
        return "ABSENT"


ABSENT = _Absent()  # the request carried no body


class Malformed(Exception):
    """The string is not derivable from the grammar: the property demands rejection."""

    def __init__(self, reason: str, maybe_constant: bool = False) -> None:
        super().__init__(reason)
        self.reason = reason
        # True when the string does not start with `$`: OpenAPI's "constant or expression" admits reading it as a constant,
        # so sending the string itself is also acceptable (evaluating it to anything else is not)
        self.maybe_constant = maybe_constant


class Undecided(Exception):
    """The texts leave the case open."""

    def __init__(self, reason: str) -> None:
        super().__init__(reason)
        self.reason = reason


@dataclass
class Expr:
    kind: str  # url | method | status | req_header | req_query | req_path | resp_header | req_body | resp_body
    name: str | None = None
    pointer: list[str] | None = None  # unescaped reference tokens; None = no "#..." part
    regex: str | None = None
    raw_tokens: list[str] = field(default_factory=list)  # escaped reference tokens as written (for signatures)


@dataclass
class Value:
    value: Any
    # loose: the texts do not fix the *type* (wire strings of path/query values, the status code, a string that consists of a
    # single embedded expression) - compare string forms only
    loose: bool = False


@dataclass
class Exchange:
    """An actual request/response pair, as seen on the wire."""

    method: str
    url: str
    path_params: dict
    query: dict
    request_headers: dict
    request_body: Any  # parsed JSON value or ABSENT
    status: int
    response_headers: list  # [(name, value)]
    response_body: bytes


# ----------------------------------------------------------------------------------------------------------------------
# Grammar
# ----------------------------------------------------------------------------------------------------------------------


def parse_pointer(text: str) -> tuple[list[str], list[str]]:
    """RFC 6901 section 3. Returns (unescaped tokens, raw tokens)."""
    if text == "":
        return [], []
    if not text.startswith("/"):
        raise Malformed("pointer_missing_leading_slash")
    raw = text[1:].split("/")
    out = []
    for tok in raw:
        buf = []
        i = 0
        while i < len(tok):
            ch = tok[i]
            if ch == "~":
                nxt = tok[i + 1] if i + 1 < len(tok) else ""
                if nxt == "0":
                    buf.append("~")
                elif nxt == "1":
                    buf.append("/")
                else:
                    raise Malformed("pointer_bad_escape")
                i += 2
            else:
                buf.append(ch)
                i += 1
        out.append("".join(buf))
    return out, raw


def _split_regex(text: str) -> tuple[str, str | None]:
    idx = text.find(REGEX_MARK)
    if idx < 0:
        return text, None
    return text[:idx], text[idx + len(REGEX_MARK) :]


def _check_regex(pattern: str) -> None:
    try:
        compiled = re.compile(pattern)
    except re.error:
        raise Malformed("regex_invalid") from None
    if compiled.groups != 1:
        raise Malformed("regex_group_count")


def _parse_named(kind: str, text: str, header: bool) -> Expr:
    name, regex = _split_regex(text)
    if name == "":
        if header:
            raise Malformed("empty_header_token")  # token = 1*tchar
        raise Undecided("empty_name")  # name = *( CHAR ) admits it; it denotes nothing
    if header and not all(c in TCHAR for c in name):
        raise Malformed("header_token_has_non_tchar" if "#" not in name else "pointer_on_non_body_source")
    if not all(c in PLAIN for c in name):
        # name = *( CHAR ) admits every character, but `. # { } $` are expression syntax as well
        raise Undecided("name_with_syntax_characters")
    if regex is not None:
        if "}" in regex or "{" in regex:
            raise Undecided("brace_in_regex")
        _check_regex(regex)
    return Expr(kind=kind, name=name, regex=regex)


def parse_expression(text: str) -> Expr:
    """`text` must be exactly one expression of the ABNF (plus the regex extension)."""
    if text == "$url":
        return Expr("url")
    if text == "$method":
        return Expr("method")
    if text == "$statusCode":
        return Expr("status")
    for prefix, side in (("$request.", "req"), ("$response.", "resp")):
        if text.startswith(prefix):
            rest = text[len(prefix) :]
            break
    else:
        if not text.startswith("$"):
            raise Malformed("expression_without_dollar")
        for simple in ("$url", "$method", "$statusCode"):
            if text.startswith(simple):
                tail = text[len(simple) :]
                if tail.startswith("#"):
                    raise Malformed("pointer_on_non_body_source")
                if tail[:1] in ".}{ ":
                    raise Malformed("trailing_text")
        for word in ("$request", "$response"):
            if text == word or (text.startswith(word) and not text.startswith(word + ".")):
                raise Malformed("missing_dot_or_source")
        raise Malformed("unknown_token")
    if rest.startswith("header."):
        return _parse_named(f"{side}_header", rest[len("header.") :], header=True)
    if rest.startswith("query.") or rest.startswith("path."):
        where, _, name = rest.partition(".")
        if side == "resp":
            # derivable (the ABNF shares `source`), but a response has neither: denotes nothing
            raise Undecided("response_query_or_path")
        return _parse_named(f"req_{where}", name, header=False)
    if rest == "body":
        return Expr(f"{side}_body")
    if rest.startswith("body#"):
        pointer = rest[len("body#") :]
        if "}" in pointer or "{" in pointer:
            # valid reference-token characters; documented limitation / the brace ambiguity of embedded expressions
            raise Undecided("brace_in_pointer")
        tokens, raw = parse_pointer(pointer)
        return Expr(f"{side}_body", pointer=tokens, raw_tokens=raw)
    if rest.startswith("body"):
        raise Malformed("text_after_body")
    for word in ("header", "query", "path"):
        if rest.startswith(word):
            raise Malformed("missing_dot_or_source")
    raise Malformed("unknown_source")


def parse_value(text: str) -> tuple[str, Any]:
    """Classify a string found as a link parameter / requestBody value.

    Returns ("expression", Expr) | ("template", [str | Expr, ...]) | ("constant", text).
    """
    if text.startswith("$"):
        if "{" in text or "}" in text:
            # Could only be part of a name (*CHAR) or of a reference-token: never clearly derivable
            try:
                parse_expression(text)
            except Undecided:
                raise
            except Malformed:
                pass
            head = text.split("{")[0].split("}")[0]
            if "#" in head or ".query." in head or ".path." in head:
                raise Undecided("brace_after_pointer_or_name")
            raise Malformed("unmatched_brace")
        return "expression", parse_expression(text)
    if "{" not in text and "}" not in text:
        if "$" in text:
            raise Malformed("dollar_inside_constant", maybe_constant=True)
        return "constant", text
    parts: list[Any] = []
    literal = []
    i = 0
    while i < len(text):
        ch = text[i]
        if ch == "}":
            raise Malformed("unmatched_brace", maybe_constant=True)
        if ch == "$":
            raise Malformed("dollar_outside_braces", maybe_constant=True)
        if ch != "{":
            literal.append(ch)
            i += 1
            continue
        close = text.find("}", i + 1)
        if close < 0:
            raise Malformed("unmatched_brace", maybe_constant=True)
        inner = text[i + 1 : close]
        if "{" in inner:
            if "#" in inner.split("{")[0]:
                raise Undecided("brace_in_pointer")  # '{' is a valid reference-token character as well
            raise Malformed("nested_brace", maybe_constant=True)
        # the closing-brace ambiguity: `{$request.body#/x}}` - is the pointer `/x` or `/x}` ?
        if "#" in inner or ".query." in inner or ".path." in inner:
            following = text[close + 1 :].split("{")[0]
            if "}" in following:
                raise Undecided("brace_after_pointer_or_name")
        if inner == "":
            raise Malformed("empty_braces", maybe_constant=True)
        if not inner.startswith("$"):
            raise Malformed("non_expression_in_braces", maybe_constant=True)
        try:
            expr = parse_expression(inner)
        except Malformed as exc:
            raise Malformed(exc.reason, maybe_constant=True) from None
        if literal:
            parts.append("".join(literal))
            literal = []
        parts.append(expr)
        i = close + 1
    if literal:
        parts.append("".join(literal))
    return "template", parts


def classify(text: str) -> tuple[str, str]:
    """("derivable"|"malformed"|"undecided", detail) - used for counting and signatures."""
    try:
        kind, _ = parse_value(text)
        return "derivable", kind
    except Malformed as exc:
        return "malformed", exc.reason
    except Undecided as exc:
        return "undecided", exc.reason


# ----------------------------------------------------------------------------------------------------------------------
# Evaluation
# ----------------------------------------------------------------------------------------------------------------------

_ARRAY_INDEX = re.compile(r"\A(0|[1-9][0-9]*)\Z")


def resolve_pointer(document: Any, tokens: list[str]) -> Any:
    """RFC 6901 section 4."""
    current = document
    for tok in tokens:
        if isinstance(current, dict):
            if tok not in current:
                return UNRESOLVED
            current = current[tok]
        elif isinstance(current, list):
            if not _ARRAY_INDEX.match(tok):
                return UNRESOLVED  # includes "-" (the element after the last one: does not exist) and "01", "-1", "1_0"
            idx = int(tok)
            if idx >= len(current):
                return UNRESOLVED
            current = current[idx]
        else:
            return UNRESOLVED
    return current


def _ci_get(pairs: list, name: str) -> list:
    return [v for k, v in pairs if k.lower() == name.lower()]


def _apply_regex(pattern: str, value: Any) -> Any:
    if not isinstance(value, str):
        raise Undecided("regex_on_non_string")
    m = re.search(pattern, value)
    if m is None:
        return UNRESOLVED
    if m.group(1) is None or m.group(1) == "":
        raise Undecided("regex_empty_group")
    return m.group(1)


def response_json(ex: Exchange) -> Any:
    try:
        return json.loads(ex.response_body.decode("utf-8"))
    except (ValueError, UnicodeDecodeError):
        return ABSENT


def evaluate_expression(expr: Expr, ex: Exchange) -> Value | _Unresolved:
    k = expr.kind
    if k == "url":
        return Value(ex.url)
    if k == "method":
        return Value(ex.method)
    if k == "status":
        return Value(ex.status, loose=True)
    if k in ("req_query", "req_path"):
        container = ex.query if k == "req_query" else ex.path_params
        if expr.name not in container or container[expr.name] is None:
            return UNRESOLVED
        v = container[expr.name]
        if expr.regex is not None:
            v = _apply_regex(expr.regex, v)
            return v if v is UNRESOLVED else Value(v)
        return Value(v, loose=True)
    if k == "req_header":
        found = _ci_get(list(ex.request_headers.items()), expr.name)
    elif k == "resp_header":
        found = _ci_get(list(ex.response_headers), expr.name)
    else:
        found = None
    if found is not None:
        if not found:
            return UNRESOLVED
        if len(found) > 1:
            raise Undecided("multi_valued_header")
        v = found[0]
        if expr.regex is not None:
            v = _apply_regex(expr.regex, v)
            return v if v is UNRESOLVED else Value(v)
        return Value(v)
    if k == "req_body":
        doc = ex.request_body
    else:
        doc = response_json(ex)
        if doc is ABSENT and expr.pointer is None and ex.response_body:
            raise Undecided("whole_non_json_body")
    if doc is ABSENT:
        return UNRESOLVED
    if expr.pointer is None:
        return Value(doc)
    v = resolve_pointer(doc, expr.pointer)
    return v if v is UNRESOLVED else Value(v)


def _embed(v: Value) -> str:
    x = v.value
    if isinstance(x, str):
        return x
    if isinstance(x, int) and not isinstance(x, bool):
        return str(x)
    # true/True, null/None/"", 1.0/1, objects: the specification does not say how a non-string is written into a string
    raise Undecided("embedding_non_string_value")


def evaluate(text: Any, ex: Exchange) -> Value | _Unresolved:
    """Value of one link `parameters` entry (or of a string leaf of `requestBody`)."""
    if not isinstance(text, str):
        return Value(text)
    kind, parsed = parse_value(text)
    if kind == "constant":
        return Value(parsed)
    if kind == "expression":
        return evaluate_expression(parsed, ex)
    if len(parsed) == 1 and isinstance(parsed[0], Expr):
        # "{expr}" alone: a string with one embedded expression, or the expression itself? type left open
        v = evaluate_expression(parsed[0], ex)
        if v is UNRESOLVED:
            return UNRESOLVED
        if not isinstance(v.value, (str, int)) or isinstance(v.value, bool):
            raise Undecided("embedding_non_string_value")
        return Value(v.value, loose=True)
    out = []
    undecided: Undecided | None = None
    for part in parsed:
        if isinstance(part, str):
            out.append(part)
            continue
        v = evaluate_expression(part, ex)
        if v is UNRESOLVED:
            return UNRESOLVED
        try:
            out.append(_embed(v))
        except Undecided as exc:
            undecided = exc
    if undecided is not None:
        raise undecided
    return Value("".join(out))


def evaluate_nested(obj: Any, ex: Exchange) -> tuple[Any, bool]:
    """requestBody: literal, expression, or (Schemathesis extension) object/array with expression leaves.

    Returns (value, any_unresolved).  Loose leaves are returned as `Value` objects inside the structure.
    """
    if isinstance(obj, dict):
        out = {}
        unresolved = False
        for key, val in obj.items():
            if "$" in key or "{" in key or "}" in key:
                raise Undecided("expression_in_object_key")
            v, u = evaluate_nested(val, ex)
            out[key] = v
            unresolved = unresolved or u
        return out, unresolved
    if isinstance(obj, list):
        items = [evaluate_nested(v, ex) for v in obj]
        return [v for v, _ in items], any(u for _, u in items)
    if isinstance(obj, str):
        v = evaluate(obj, ex)
        if v is UNRESOLVED:
            return UNRESOLVED, True
        return (v if v.loose else v.value), False
    return obj, False


def same(actual: Any, expected: Any) -> bool:
    """Typed JSON equality (True != 1, 1 != 1.0 is NOT distinguished: JSON numbers); `Value(loose=True)` compares string forms."""
    if isinstance(expected, Value):
        if expected.loose:
            return _loose(actual) == _loose(expected.value)
        expected = expected.value
    if isinstance(expected, bool) or isinstance(actual, bool):
        return isinstance(expected, bool) and isinstance(actual, bool) and expected == actual
    if isinstance(expected, dict):
        return isinstance(actual, dict) and set(actual) == set(expected) and all(same(actual[k], expected[k]) for k in expected)
    if isinstance(expected, list):
        return isinstance(actual, list) and len(actual) == len(expected) and all(same(a, e) for a, e in zip(actual, expected))
    if isinstance(expected, (int, float)):
        return isinstance(actual, (int, float)) and actual == expected
    if expected is None:
        return actual is None
    return type(actual) is type(expected) and actual == expected


def _loose(x: Any) -> str:
    if isinstance(x, Value):
        x = x.value
    return x if isinstance(x, str) else json.dumps(x)


def plain(x: Any) -> Any:
    """Strip `Value` wrappers (for reporting)."""
    if isinstance(x, Value):
        return plain(x.value)
    if isinstance(x, dict):
        return {k: plain(v) for k, v in x.items()}
    if isinstance(x, list):
        return [plain(v) for v in x]
    if x is UNRESOLVED or x is ABSENT:
        return repr(x)
    return x


# ----------------------------------------------------------------------------------------------------------------------
# Response-key matching (Responses Object)
# ----------------------------------------------------------------------------------------------------------------------


def key_kind(key: Any) -> str:
    s = str(key)
    if s == "default":
        return "default"
    if len(s) == 3 and s[0] in "12345" and s[1:] == "XX":
        return "range"
    if len(s) == 3 and all(c in DIGITS for c in s):
        return "exact"
    return "other"


def key_covers(key: Any, status: int) -> bool | None:
    kind = key_kind(key)
    if kind == "exact":
        return int(str(key)) == status
    if kind == "range":
        return status // 100 == int(str(key)[0])
    return None


def link_usable(key: Any, status: int, all_keys: list) -> bool | None:
    """Is a link defined under response key `key` usable from a response with `status`, given all documented keys?

    True / False / None (None: OpenAPI's "explicit code takes precedence over the range" vs the plain reading "NXX matches")
    """
    kind = key_kind(key)
    if kind == "other" or any(key_kind(k) == "other" for k in all_keys):
        return None
    if kind == "default":
        return not any(key_covers(k, status) for k in all_keys if key_kind(k) != "default")
    if not key_covers(key, status):
        return False
    if kind == "range" and any(key_kind(k) == "exact" and key_covers(k, status) for k in all_keys):
        return None
    return True
