"""Independent evaluator of OpenAPI Schema Objects (own code; does not import schemathesis).

``Evaluator.verdict(schema, value)`` returns True (conforms), False (violates) or None (the OpenAPI / JSON-Schema
texts leave the case open - e.g. 1.0 against ``type: integer`` - or the schema uses something outside the supported
keyword set).  Callers never report an alarm on None.
"""

from __future__ import annotations

import base64
import math
import re
import uuid
from datetime import date, datetime
from decimal import Decimal, InvalidOperation
from typing import Any
from urllib.parse import unquote


class Unknown(Exception):
    """The case is outside what this oracle decides."""


SUPPORTED = {
    "type", "enum", "const", "minimum", "maximum", "exclusiveMinimum", "exclusiveMaximum", "multipleOf",
    "minLength", "maxLength", "pattern", "format", "items", "minItems", "maxItems", "uniqueItems", "properties",
    "required", "additionalProperties", "minProperties", "maxProperties", "allOf", "anyOf", "oneOf", "not", "$ref",
    "nullable", "x-nullable", "readOnly", "writeOnly",
}
ANNOTATIONS = {
    "description", "title", "example", "examples", "default", "deprecated", "xml", "externalDocs", "x-example",
    "x-examples", "discriminator", "$schema", "$id", "$comment", "definitions", "$defs", "name", "in",
}


def json_equal(a: Any, b: Any) -> bool:
    if isinstance(a, bool) or isinstance(b, bool):
        return isinstance(a, bool) and isinstance(b, bool) and a == b
    if isinstance(a, (int, float)) and isinstance(b, (int, float)):
        return a == b
    if type(a) is not type(b):
        if isinstance(a, (list, tuple)) and isinstance(b, (list, tuple)):
            pass
        else:
            return False
    if isinstance(a, dict):
        return a.keys() == b.keys() and all(json_equal(a[k], b[k]) for k in a)
    if isinstance(a, (list, tuple)):
        return len(a) == len(b) and all(json_equal(x, y) for x, y in zip(a, b))
    return a == b


def _is_date(v: str) -> bool:
    if not re.fullmatch(r"\d{4}-\d{2}-\d{2}", v):
        return False
    try:
        date.fromisoformat(v)
        return True
    except ValueError:
        return False


def _is_datetime(v: str) -> bool:
    m = re.fullmatch(r"(\d{4}-\d{2}-\d{2})[Tt ](\d{2}):(\d{2}):(\d{2})(\.\d+)?([Zz]|[+-]\d{2}:\d{2})", v)
    if not m:
        return False
    if not _is_date(m.group(1)):
        return False
    h, mi, s = int(m.group(2)), int(m.group(3)), int(m.group(4))
    return h <= 23 and mi <= 59 and s <= 60


def _is_uuid(v: str) -> bool:
    try:
        uuid.UUID(v)
        return True
    except (ValueError, AttributeError, TypeError):
        return False


def _is_byte(v: str) -> bool:
    try:
        base64.b64decode(v, validate=True)
        return True
    except Exception:  # noqa: BLE001
        return False


FORMATS = {
    "date": _is_date,
    "date-time": _is_datetime,
    "uuid": _is_uuid,
    "byte": _is_byte,
    "ipv4": lambda v: bool(re.fullmatch(r"(\d{1,3})\.(\d{1,3})\.(\d{1,3})\.(\d{1,3})", v))
    and all(int(p) <= 255 for p in v.split(".")),
}
# formats that say nothing about the JSON value (or whose meaning is transport-level)
IGNORED_FORMATS = {"binary", "int32", "int64", "float", "double", "password"}


class Evaluator:
    def __init__(self, root: dict | None = None, *, spec: str = "3.0", direction: str = "request", strict_integer: bool = False,
                 check_formats: bool = True):
        self.root = root or {}
        self.spec = spec  # "2.0" | "3.0" | "3.1"
        self.direction = direction  # "request" | "response"
        self.strict_integer = strict_integer
        self.check_formats = check_formats

    # -- public -------------------------------------------------------------------------------------------------
    def valid(self, schema: Any, value: Any) -> bool:
        return self._valid(schema, value, 0)

    def resolve(self, schema: Any) -> Any:
        seen = 0
        while isinstance(schema, dict) and "$ref" in schema:
            schema = self._lookup(schema["$ref"])
            seen += 1
            if seen > 20:
                raise Unknown("reference cycle")
        return schema

    # -- internals ----------------------------------------------------------------------------------------------
    def _lookup(self, ref: str) -> Any:
        if not ref.startswith("#"):
            raise Unknown(f"non-local reference {ref}")
        node: Any = self.root
        for part in ref[1:].split("/"):
            if part == "":
                continue
            part = unquote(part).replace("~1", "/").replace("~0", "~")
            if isinstance(node, list):
                node = node[int(part)]
            else:
                if part not in node:
                    raise Unknown(f"dangling reference {ref}")
                node = node[part]
        return node

    def _type_ok(self, t: str, v: Any) -> bool:
        if t == "null":
            return v is None
        if t == "boolean":
            return isinstance(v, bool)
        if t == "string":
            return isinstance(v, str)
        if t == "integer":
            if isinstance(v, bool):
                return False
            if isinstance(v, int):
                return True
            if isinstance(v, float) and not self.strict_integer:
                return math.isfinite(v) and v == int(v)
            return False
        if t == "number":
            return isinstance(v, (int, float)) and not isinstance(v, bool)
        if t == "array":
            return isinstance(v, (list, tuple))
        if t == "object":
            return isinstance(v, dict)
        if t == "file":
            return True
        raise Unknown(f"type {t}")

    def _valid(self, schema: Any, v: Any, depth: int) -> bool:
        if depth > 40:
            raise Unknown("too deep")
        if schema is True:
            return True
        if schema is False:
            return False
        if not isinstance(schema, dict):
            raise Unknown("schema is not an object")
        for key in schema:
            if key not in SUPPORTED and key not in ANNOTATIONS and not key.startswith("x-"):
                raise Unknown(f"keyword {key}")
        if "$ref" in schema:
            target = self._lookup(schema["$ref"])
            if not self._valid(target, v, depth + 1):
                return False
            if self.spec != "3.1":
                return True
            schema = {k: s for k, s in schema.items() if k != "$ref"}
        nullable = schema.get("nullable") is True or schema.get("x-nullable") is True
        if v is None and nullable and self.spec != "3.1":
            if "enum" in schema and not any(e is None for e in schema["enum"]):
                raise Unknown("nullable with enum lacking null")
            return True
        if "type" in schema:
            types = schema["type"]
            if isinstance(types, str):
                types = [types]
            if not any(self._type_ok(t, v) for t in types):
                return False
        if "enum" in schema and not any(json_equal(e, v) for e in schema["enum"]):
            return False
        if "const" in schema and not json_equal(schema["const"], v):
            return False
        if isinstance(v, (int, float)) and not isinstance(v, bool):
            if not self._numeric(schema, v):
                return False
        if isinstance(v, str):
            if not self._string(schema, v):
                return False
        if isinstance(v, (list, tuple)):
            if not self._array(schema, v, depth):
                return False
        if isinstance(v, dict):
            if not self._object(schema, v, depth):
                return False
        for sub in schema.get("allOf", []):
            if not self._valid(sub, v, depth + 1):
                return False
        if "anyOf" in schema and not any(self._valid(sub, v, depth + 1) for sub in schema["anyOf"]):
            return False
        if "oneOf" in schema and sum(1 for sub in schema["oneOf"] if self._valid(sub, v, depth + 1)) != 1:
            return False
        if "not" in schema and self._valid(schema["not"], v, depth + 1):
            return False
        return True

    def _numeric(self, s: dict, v: Any) -> bool:
        if isinstance(v, float) and not math.isfinite(v):
            raise Unknown("non-finite number")
        if "minimum" in s:
            m = s["minimum"]
            if s.get("exclusiveMinimum") is True:
                if v <= m:
                    return False
            elif v < m:
                return False
        if "maximum" in s:
            m = s["maximum"]
            if s.get("exclusiveMaximum") is True:
                if v >= m:
                    return False
            elif v > m:
                return False
        em = s.get("exclusiveMinimum")
        if isinstance(em, (int, float)) and not isinstance(em, bool) and v <= em:
            return False
        em = s.get("exclusiveMaximum")
        if isinstance(em, (int, float)) and not isinstance(em, bool) and v >= em:
            return False
        if "multipleOf" in s:
            m = s["multipleOf"]
            try:
                q = Decimal(repr(v)) / Decimal(repr(m))
            except (InvalidOperation, ZeroDivisionError) as exc:
                raise Unknown("multipleOf arithmetic") from exc
            exact = q == q.to_integral_value()
            if isinstance(v, float) or isinstance(m, float):
                fq = v / m
                approx = math.isfinite(fq) and fq == int(fq)
                if approx != exact:
                    raise Unknown("multipleOf rounding")
            if not exact:
                return False
        return True

    def _string(self, s: dict, v: str) -> bool:
        if "minLength" in s and len(v) < s["minLength"]:
            return False
        if "maxLength" in s and len(v) > s["maxLength"]:
            return False
        if "pattern" in s:
            try:
                rx = re.compile(s["pattern"])
            except re.error as exc:
                raise Unknown("pattern does not compile") from exc
            if rx.search(v) is None:
                return False
        fmt = s.get("format")
        if fmt is not None and self.check_formats and fmt not in IGNORED_FORMATS:
            checker = FORMATS.get(fmt)
            if checker is None:
                raise Unknown(f"format {fmt}")
            if not checker(v):
                return False
        return True

    def _array(self, s: dict, v: Any, depth: int) -> bool:
        if "minItems" in s and len(v) < s["minItems"]:
            return False
        if "maxItems" in s and len(v) > s["maxItems"]:
            return False
        if s.get("uniqueItems") is True:
            for i in range(len(v)):
                for j in range(i + 1, len(v)):
                    if json_equal(v[i], v[j]):
                        return False
        items = s.get("items")
        if isinstance(items, (dict, bool)):
            for x in v:
                if not self._valid(items, x, depth + 1):
                    return False
        elif isinstance(items, list):
            raise Unknown("tuple items")
        return True

    def _skipped_required(self, prop_schema: Any) -> bool:
        try:
            ps = self.resolve(prop_schema)
        except Unknown:
            return False
        if not isinstance(ps, dict):
            return False
        if self.direction == "request":
            return ps.get("readOnly") is True
        return ps.get("writeOnly") is True

    def _object(self, s: dict, v: dict, depth: int) -> bool:
        props = s.get("properties", {})
        if "minProperties" in s and len(v) < s["minProperties"]:
            return False
        if "maxProperties" in s and len(v) > s["maxProperties"]:
            return False
        for name in s.get("required", []):
            if name not in v:
                if name in props and self._skipped_required(props[name]):
                    continue
                return False
        for name, sub in props.items():
            if name in v:
                if self._skipped_required(sub):
                    # a readOnly property in a request / a writeOnly one in a response: "SHOULD NOT be sent"
                    return False
                if not self._valid(sub, v[name], depth + 1):
                    return False
        ap = s.get("additionalProperties")
        if ap is not None and ap is not True:
            for name in v:
                if name in props:
                    continue
                if ap is False:
                    return False
                if not self._valid(ap, v[name], depth + 1):
                    return False
        return True


def verdict(root: dict | None, schema: Any, value: Any, *, spec: str = "3.0", direction: str = "request",
            check_formats: bool | None = None) -> bool | None:
    """True / False, or None when the two readings of ``integer`` (and of ``format``) disagree or the case is unsupported."""
    results = set()
    fmt_opts = [True, False] if check_formats is None else [check_formats]
    try:
        for strict in (False, True):
            for fmt in fmt_opts:
                results.add(Evaluator(root, spec=spec, direction=direction, strict_integer=strict, check_formats=fmt).valid(schema, value))
    except Unknown:
        return None
    except RecursionError:
        return None
    if len(results) != 1:
        return None
    return results.pop()


# -- string coercion for path / query / header / cookie --------------------------------------------------------------

def readings(value: Any, location: str) -> list[Any]:
    """All JSON values a wire string may be read as (the value itself first)."""
    out = [value]

    def add(x: Any) -> None:
        if not any(type(x) is type(o) and json_equal(x, o) for o in out):
            out.append(x)

    if isinstance(value, str):
        s = value
        if location == "path":
            try:
                add(unquote(s))
            except Exception:  # noqa: BLE001
                pass
        if re.fullmatch(r"-?(0|[1-9]\d*)", s):
            add(int(s))
        elif re.fullmatch(r"-?(0|[1-9]\d*)(\.\d+)?([eE][+-]?\d+)?", s):
            try:
                f = float(s)
                if math.isfinite(f):
                    add(f)
            except ValueError:
                pass
        # str(True) / str(None) are how Python clients commonly stringify these values; accepted as readings too
        if s in ("true", "True"):
            add(True)
        elif s in ("false", "False"):
            add(False)
        elif s in ("null", "None"):
            add(None)
    elif isinstance(value, bool):
        add("true" if value else "false")
    elif value is None:
        add("null")
        add("")
    elif isinstance(value, (int, float)):
        add(str(value))
    elif isinstance(value, (list, tuple)):
        # element-wise coercion, one combined reading per element-choice would explode; use "all raw" and "all coerced"
        pass
    return out


def coerced_verdict(root: dict | None, schema: Any, value: Any, location: str, *, spec: str = "3.0",
                    check_formats: bool | None = None) -> bool | None:
    """Conforms iff some reading conforms; violates iff every reading violates; None if any reading is undecided and none conforms."""
    undecided = False
    if isinstance(value, (list, tuple)):
        return _coerced_array(root, schema, list(value), location, spec, check_formats)
    for r in readings(value, location):
        v = verdict(root, schema, r, spec=spec, check_formats=check_formats)
        if v is True:
            return True
        if v is None:
            undecided = True
    return None if undecided else False


def _coerced_array(root, schema, value, location, spec, check_formats):
    # Evaluate array-level keywords on the raw list, items element-wise with coercion.
    ev = Evaluator(root, spec=spec)
    try:
        s = ev.resolve(schema)
    except Unknown:
        return None
    if not isinstance(s, dict):
        return verdict(root, schema, value, spec=spec, check_formats=check_formats)
    combinators = {"allOf", "anyOf", "oneOf", "not", "enum", "const"} & set(s)
    if combinators:
        return verdict(root, schema, value, spec=spec, check_formats=check_formats) or None
    shell = {k: v for k, v in s.items() if k != "items"}
    v = verdict(root, shell, value, spec=spec, check_formats=check_formats)
    if v is not True:
        return v
    items = s.get("items")
    if items is None:
        return True
    result: bool | None = True
    for x in value:
        r = coerced_verdict(root, items, x, location, spec=spec, check_formats=check_formats)
        if r is False:
            return False
        if r is None:
            result = None
    return result
