"""Independent verdict function for response conformance (own code; does not import schemathesis).

Written from the text of property C04 and from the OpenAPI 2.0 / 3.0 / 3.1 texts:

* Responses Object: an explicit status code wins over a range key (``2XX``, OpenAPI 3.x only), which wins over ``default``.
* Response Object may be a Reference Object; ``content`` maps media types (or media type ranges) to Media Type Objects;
  "for responses that match multiple keys, only the most specific key is applicable" (``text/plain`` over ``text/*`` over ``*/*``).
* Media types are compared case-insensitively and without parameters (RFC 7231, 3.1.1.1).
* ``headers`` maps case-insensitive names to Header Objects (or references); ``required`` defaults to false.
* Schema Object: ``nullable`` / ``x-nullable`` / type lists, ``writeOnly`` ("if in the required list, the required will take effect on
  the request only"), local ``$ref``.

Each of the four *aspects* a response can deviate in gets ``pass`` / ``fail`` / ``undecided``.  ``undecided`` marks what the
property text and the specification leave open; callers never alarm on it:

* content type when nothing is documented for the status, or no media type is documented at all, or the status is 204;
* body when the response has no / a malformed / a non-JSON / an undocumented Content-Type (the Content-Type aspect covers those),
  when the status is 204, when the body carries a ``writeOnly`` property ("SHOULD NOT be sent"), or when the evaluator abstains;
* header values the evaluator abstains on.
"""

from __future__ import annotations

import json
from typing import Any

from oracles.jsonschema_mini import Evaluator, Unknown, coerced_verdict, verdict

ASPECTS = ("status", "content_type", "headers", "body")
PASS, FAIL, UNDECIDED = "pass", "fail", "undecided"


def parse_media_type(value: str) -> tuple[str, str] | None:
    """(type, subtype) lower-cased, parameters dropped; None when the value is not ``type "/" subtype``."""
    essence = value.split(";", 1)[0].strip()
    if essence.count("/") != 1:
        return None
    main, sub = (part.strip().lower() for part in essence.split("/"))
    if not main or not sub or " " in main or " " in sub:
        return None
    return main, sub


def match_rank(documented: tuple[str, str], received: tuple[str, str]) -> int | None:
    """2 = exact, 1 = ``type/*``, 0 = ``*/*``, None = no match."""
    if documented == received:
        return 2
    if documented[0] == received[0] and documented[1] == "*":
        return 1
    if documented == ("*", "*"):
        return 0
    return None


def is_json(parsed: tuple[str, str]) -> bool:
    return parsed[0] == "application" and (parsed[1] == "json" or parsed[1].endswith("+json"))


def deref(root: dict, node: Any) -> tuple[Any, bool]:
    """Follow local references; (node, whether a reference was followed)."""
    followed = False
    ev = Evaluator(root)
    for _ in range(10):
        if isinstance(node, dict) and isinstance(node.get("$ref"), str):
            node = ev._lookup(node["$ref"])
            followed = True
        else:
            return node, followed
    raise Unknown("reference chain too long")


def select_response(responses: dict, status: int, spec: str) -> tuple[str, Any]:
    """('exact' | 'range' | 'default' | 'none', key as written)."""
    by_text: dict[str, Any] = {}
    for key in responses:
        text = str(key)
        if text in by_text:
            raise Unknown("two keys with the same text")
        by_text[text] = key
    if str(status) in by_text:
        return "exact", by_text[str(status)]
    wildcard = f"{status // 100}XX"
    if wildcard in by_text:
        if spec == "2.0":
            raise Unknown("status code ranges are not part of OpenAPI 2.0")
        return "range", by_text[wildcard]
    if "default" in by_text:
        return "default", by_text["default"]
    return "none", None


def has_write_only_value(root: dict, schema: Any, value: Any, depth: int = 0) -> bool:
    """Does the instance carry a property its schema marks ``writeOnly``?  (SHOULD NOT in a response: left open.)"""
    if depth > 6 or not isinstance(value, dict):
        return False
    try:
        schema, _ = deref(root, schema)
    except Unknown:
        return False
    if not isinstance(schema, dict):
        return False
    for name, sub in (schema.get("properties") or {}).items():
        if name not in value:
            continue
        try:
            resolved, _ = deref(root, sub)
        except Unknown:
            continue
        if isinstance(resolved, dict) and (resolved.get("writeOnly") is True or resolved.get("x-writeOnly") is True):
            return True
        if has_write_only_value(root, sub, value[name], depth + 1):
            return True
    return False


def body_verdict(root: dict, schema: Any, body: bytes, spec: str) -> tuple[str, str]:
    try:
        value = json.loads(body.decode("utf-8"))
    except (ValueError, UnicodeDecodeError):
        return FAIL, "not_json"
    if has_write_only_value(root, schema, value):
        return UNDECIDED, "write_only_property_present"
    v = verdict(root, schema, value, spec=spec, direction="response")
    if v is None:
        return UNDECIDED, "evaluator_abstains"
    return (PASS, "conforms") if v else (FAIL, "violates_schema")


def documented_media_types(root: dict, operation: dict, definition: dict | None, spec: str) -> list[tuple[str, Any]]:
    """[(media type as written, schema or None)] in document order."""
    if spec == "2.0":
        produces = operation.get("produces")
        if produces is None:
            produces = root.get("produces")
        schema = (definition or {}).get("schema")
        return [(mt, schema) for mt in (produces or [])]
    if definition is None:
        return []
    return [(mt, (obj or {}).get("schema")) for mt, obj in (definition.get("content") or {}).items()]


def expected(root: dict, spec: str, path: str, method: str, status: int, headers: dict[str, str], body: bytes) -> dict:
    """{'status': (verdict, why), ..., 'facts': {...}} - ``headers`` maps lower-case names to values."""
    operation = root["paths"][path][method]
    responses = operation.get("responses") or {}
    facts: dict[str, Any] = {}
    out: dict[str, Any] = {"facts": facts}
    try:
        how, key = select_response(responses, status, spec)
    except Unknown as exc:
        for aspect in ASPECTS:
            out[aspect] = (UNDECIDED, str(exc))
        facts["selected_by"] = "open"
        return out
    facts["selected_by"] = how
    facts["key_form"] = "none" if key is None else ("int" if isinstance(key, int) else "str")
    if how == "range":
        literal = "default" if any(str(k) == "default" for k in responses) else "none"
        facts["literal_lookup"] = literal
    out["status"] = (FAIL, "undocumented_status") if how == "none" else (PASS, f"documented_by_{how}")
    definition = None
    if key is not None:
        definition, via_ref = deref(root, responses[key])
        facts["response_via_ref"] = via_ref

    # -- Content-Type ----------------------------------------------------------------------------------------------
    received_raw = headers.get("content-type")
    received = parse_media_type(received_raw) if received_raw is not None else None
    documented = documented_media_types(root, operation, definition, spec)
    parsed_documented = [(parse_media_type(mt), schema) for mt, schema in documented]
    best: tuple[int, int] | None = None  # (rank, -position)
    if received is not None:
        for position, (parsed, _) in enumerate(parsed_documented):
            if parsed is None:
                continue
            rank = match_rank(parsed, received)
            if rank is not None and (best is None or (rank, -position) > best):
                best = (rank, -position)
    matched_position = None if best is None else -best[1]
    facts["content_type_matches"] = None if best is None else {2: "exact", 1: "type_wildcard", 0: "any_wildcard"}[best[0]]
    if how == "none":
        out["content_type"] = (UNDECIDED, "nothing_documented_for_status")
    elif status == 204:
        out["content_type"] = (UNDECIDED, "204_has_no_content")
    elif not documented:
        out["content_type"] = (UNDECIDED, "no_media_type_documented")
    elif any(parsed is None for parsed, _ in parsed_documented):
        out["content_type"] = (UNDECIDED, "malformed_documented_media_type")
    elif received_raw is None:
        out["content_type"] = (FAIL, "content_type_absent")
    elif received is None:
        out["content_type"] = (FAIL, "content_type_malformed")
    elif best is None:
        out["content_type"] = (FAIL, "content_type_not_documented")
    else:
        out["content_type"] = (PASS, "content_type_documented")

    # -- headers ---------------------------------------------------------------------------------------------------
    if how == "none":
        out["headers"] = (PASS, "nothing_documented_for_status")
    else:
        out["headers"] = _headers_verdict(root, spec, definition, headers, facts)

    # -- body ------------------------------------------------------------------------------------------------------
    if how == "none":
        out["body"] = (PASS, "nothing_documented_for_status")
    elif status == 204:
        out["body"] = (UNDECIDED, "204_has_no_content")
    elif not documented:
        if spec == "2.0" and (definition or {}).get("schema") is not None:
            out["body"] = (UNDECIDED, "schema_without_produces")
        else:
            out["body"] = (PASS, "no_schema_documented")
    elif received_raw is None or received is None or not is_json(received):
        out["body"] = (UNDECIDED, "content_type_absent_or_not_json")
    elif matched_position is None:
        out["body"] = (UNDECIDED, "content_type_not_documented")
    else:
        schema = parsed_documented[matched_position][1]
        facts["media_type_position"] = "first" if matched_position == 0 else "not_first"
        if matched_position != 0:
            first_schema = parsed_documented[0][1]
            facts["first_media_type_verdict"] = "no_schema" if first_schema is None else body_verdict(root, first_schema, body, spec)[0]
        if schema is None:
            out["body"] = (PASS, "no_schema_documented")
        else:
            out["body"] = body_verdict(root, schema, body, spec)
    return out


def _headers_verdict(root: dict, spec: str, definition: dict, headers: dict[str, str], facts: dict) -> tuple[str, str]:
    documented = definition.get("headers") or {}
    undecided = None
    failure = None
    for name, header in documented.items():
        try:
            resolved, via_ref = deref(root, header)
        except Unknown as exc:
            undecided = str(exc)
            continue
        if via_ref:
            facts["header_via_ref"] = True
        if name.lower() == "content-type":
            continue  # "If a response header is defined with the name Content-Type, it SHALL be ignored"
        value = headers.get(name.lower())
        if value is None:
            if spec != "2.0" and resolved.get("required") is True:
                failure = failure or "required_header_missing"
            continue
        if spec == "2.0":
            schema = {k: v for k, v in resolved.items() if k not in ("description", "required", "x-required")}
        else:
            if "schema" not in resolved:
                undecided = "header_without_schema"
                continue
            schema = resolved["schema"]
        v = coerced_verdict(root, schema, value, "header", spec=spec)
        if v is None:
            undecided = "evaluator_abstains"
        elif v is False:
            failure = failure or "header_value_violates_schema"
    if failure:
        return FAIL, failure
    if undecided:
        return UNDECIDED, undecided
    return PASS, "headers_conform" if documented else "no_header_documented"
