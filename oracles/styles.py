"""Independent decoders for OpenAPI parameter serialisation (used by C06, and reusable by C09/C14/C17).

Written from the tables of the specifications, not from Schemathesis' serialisers:

* OpenAPI 3.0.3, "Parameter Object" -> "Style Values" / "Style Examples" and RFC 6570 (the normative definition of
  ``simple`` = ``{var}``, ``label`` = ``{.var}``, ``matrix`` = ``{;var}``, ``form`` = ``{?var}``, with ``*`` = explode):

  ============== ======= ============ ===================================== =====================================
  style          explode primitive    array [blue, black]                   object {R: 100, G: 200}
  ============== ======= ============ ===================================== =====================================
  matrix         false   ;p=blue      ;p=blue,black                         ;p=R,100,G,200
  matrix         true    ;p=blue      ;p=blue;p=black                       ;R=100;G=200
  label          false   .blue        .blue,black (RFC 6570)                .R,100,G,200 (RFC 6570)
  label          true    .blue        .blue.black                           .R=100.G=200
  form           false   p=blue       p=blue,black                          p=R,100,G,200
  form           true    p=blue       p=blue&p=black                        R=100&G=200
  simple         false   blue         blue,black                            R,100,G,200
  simple         true    blue         blue,black                            R=100,G=200
  spaceDelimited false   n/a          p=blue%20black                        n/a here
  pipeDelimited  false   n/a          p=blue|black                          n/a here
  deepObject     true    n/a          n/a                                   p[R]=100&p[G]=200
  ============== ======= ============ ===================================== =====================================

  (The 3.0.3 example table prints ``.blue.black`` for label/explode=false, contradicting RFC 6570 which it names as
  normative; both readings are accepted.)  Defaults: path/header -> simple, query/cookie -> form; explode defaults to
  true for form and false otherwise.  ``content: {application/json: ...}`` parameters carry ``json.dumps(value)``.

* Swagger 2.0 "collectionFormat": csv ``,`` (default) / ssv space / tsv ``\\t`` / pipes ``|`` / multi (one
  ``name=value`` pair per item; query and formData only).

Every decoder returns a *list of readings*.  A wire form is accepted when any reading equals the expected value up to
string coercion.  Two readings are always produced where percent-encoding is involved: the strict RFC 6570 one (split the
raw string on the style's delimiters, then percent-decode every piece) and the lenient one almost every server
implements (percent-decode first, then split).  ``ambiguity()`` names the cases in which the style itself cannot carry
the value (they must be counted as trivial by the caller, never reported).

Nothing here imports schemathesis.
"""

from __future__ import annotations

import json
import math
from typing import Any, Callable
from urllib.parse import unquote, unquote_plus



class _Absent:
    """Reading: the parameter is not on the wire at all."""

    def __repr__(self) -> str:
        return "<absent>"


ABSENT = _Absent()


class Undefined(Exception):
    """The specification does not define this location/style/explode/type combination."""


# ------------------------------------------------------------------------------------------------- defaults / tables

DEFAULT_STYLE = {"path": "simple", "header": "simple", "query": "form", "cookie": "form"}
ALLOWED_STYLES = {
    "path": ("simple", "label", "matrix"),
    "query": ("form", "spaceDelimited", "pipeDelimited", "deepObject"),
    "header": ("simple",),
    "cookie": ("form",),
}
COLLECTION_DELIMITER = {"csv": ",", "ssv": " ", "tsv": "\t", "pipes": "|"}


def effective(location: str, style: str | None, explode: bool | None) -> tuple[str, bool]:
    st = style or DEFAULT_STYLE[location]
    ex = (st == "form") if explode is None else bool(explode)
    return st, ex


def defined(location: str, style: str | None, explode: bool | None, kind: str) -> bool:
    """Is (location, style, explode, kind in {primitive, array, object}) a combination the 3.0.3 table defines?"""
    st, ex = effective(location, style, explode)
    if st not in ALLOWED_STYLES[location]:
        return False
    if st in ("spaceDelimited", "pipeDelimited"):
        return kind == "array"
    if st == "deepObject":
        return kind == "object" and ex
    if location == "cookie" and ex and kind in ("array", "object"):
        return False  # form+explode yields several `name=value` pairs joined by `&`: a Cookie header cannot express that
    return True


# ------------------------------------------------------------------------------------------------- string coercion


def kind_of(value: Any) -> str:
    if isinstance(value, (list, tuple)):
        return "array"
    if isinstance(value, dict):
        return "object"
    return "primitive"


def canonical(value: Any) -> str | None:
    """The canonical wire string of a primitive (JSON spelling for booleans/null)."""
    if isinstance(value, str):
        return value
    if value is True:
        return "true"
    if value is False:
        return "false"
    if value is None:
        return "null"
    if isinstance(value, int):
        return str(value)
    if isinstance(value, float):
        return repr(value)
    return None


def leaf_matches(expected: Any, got: Any) -> bool:
    if not isinstance(got, str):
        return False
    if isinstance(expected, str):
        return got == expected
    if isinstance(expected, bool) or expected is None:
        return got == canonical(expected)
    if isinstance(expected, int):
        return got == str(expected)
    if isinstance(expected, float):
        try:
            parsed = float(got)
        except ValueError:
            return False
        return parsed == expected or (math.isnan(parsed) and math.isnan(expected))
    return False


def matches(expected: Any, reading: Any) -> bool:
    """Structural equality up to string coercion of the leaves (1 <-> "1", true <-> "true", null <-> "null")."""
    if reading is ABSENT or reading is None:
        return False
    if isinstance(expected, (list, tuple)):
        return isinstance(reading, list) and len(reading) == len(expected) and all(
            leaf_matches(e, r) for e, r in zip(expected, reading)
        )
    if isinstance(expected, dict):
        return (
            isinstance(reading, dict)
            and set(reading) == {str(k) for k in expected}
            and all(leaf_matches(v, reading[str(k)]) for k, v in expected.items())
        )
    return leaf_matches(expected, reading)


def any_matches(expected: Any, readings: list) -> bool:
    return any(matches(expected, r) for r in readings)


def python_spelling(expected: Any, readings: list) -> bool:
    """Diagnosis only: would a reading match if booleans/None were spelled as Python's ``str()`` does (True/False/None)?"""

    def py(v: Any) -> Any:
        if isinstance(v, bool) or v is None:
            return str(v)
        if isinstance(v, (list, tuple)):
            return [py(x) for x in v]
        if isinstance(v, dict):
            return {k: py(x) for k, x in v.items()}
        return v

    def has_special(v: Any) -> bool:
        if isinstance(v, bool) or v is None:
            return True
        if isinstance(v, (list, tuple)):
            return any(has_special(x) for x in v)
        if isinstance(v, dict):
            return any(has_special(x) for x in v.values())
        return False

    return has_special(expected) and any_matches(py(expected), readings)


# ------------------------------------------------------------------------------------------------- low-level wire parsing


def pct_decode(raw: str) -> str:
    return unquote(raw, encoding="utf-8", errors="strict")


def form_decode(raw: str) -> str:
    """application/x-www-form-urlencoded component: '+' is a space."""
    return unquote_plus(raw, encoding="utf-8", errors="strict")


def split_query(raw_query: str) -> list[tuple[str, str]]:
    """Raw (still encoded) name/value pairs of a query string or urlencoded body, in order."""
    pairs = []
    for chunk in raw_query.split("&"):
        if not chunk:
            continue
        name, _, value = chunk.partition("=")
        pairs.append((name, value))
    return pairs


def parse_cookie_header(value: str) -> list[tuple[str, str]]:
    """RFC 6265 section 5.4 / 4.2.1: ``cookie-pair *( ";" SP cookie-pair )``."""
    pairs = []
    for chunk in value.split(";"):
        chunk = chunk.strip(" ")
        if not chunk:
            continue
        name, _, val = chunk.partition("=")
        pairs.append((name, val))
    return pairs


def path_segments(raw_path: str) -> list[str]:
    return raw_path.split("/")


# ------------------------------------------------------------------------------------------------- style bodies

Leaf = Callable[[str], str]


def _pairs_to_object(pieces: list[str], leaf: Leaf) -> Any:
    """k,v,k,v -> {k: v}"""
    if len(pieces) % 2:
        return None
    out = {}
    for i in range(0, len(pieces), 2):
        out[leaf(pieces[i])] = leaf(pieces[i + 1])
    return out


def _kv_to_object(pieces: list[str], leaf: Leaf) -> Any:
    """k=v pieces -> {k: v}"""
    out = {}
    for piece in pieces:
        k, sep, v = piece.partition("=")
        if not sep:
            return None
        out[leaf(k)] = leaf(v)
    return out


def _simple(text: str, kind: str, explode: bool, leaf: Leaf, delimiter: str = ",") -> list:
    if kind == "primitive":
        return [leaf(text)]
    pieces = text.split(delimiter) if text != "" else []
    if kind == "array":
        return [[leaf(p) for p in pieces]]
    if explode:
        return [_kv_to_object(pieces, leaf)]
    return [_pairs_to_object(pieces, leaf)]


def _label(text: str, kind: str, explode: bool, leaf: Leaf) -> list:
    if not text.startswith("."):
        return []
    rest = text[1:]
    if kind == "primitive":
        return [leaf(rest)]
    out = []
    delimiters = ["."] if explode else [",", "."]  # "," per RFC 6570; "." per the 3.0.3 example table
    for delimiter in delimiters:
        out += _simple(rest, kind, explode, leaf, delimiter)
    return out


def _matrix(text: str, name: str, kind: str, explode: bool, leaf: Leaf, name_leaf: Leaf) -> list:
    if not text.startswith(";"):
        return []
    params = text[1:].split(";") if text[1:] != "" else []
    named = []
    for p in params:
        k, sep, v = p.partition("=")
        named.append((name_leaf(k), v, bool(sep)))
    if kind == "primitive":
        if len(named) != 1 or named[0][0] != name:
            # a primitive containing ";" (strict reading keeps it encoded, lenient reading sees it raw)
            whole = text[1:]
            k, sep, v = whole.partition("=")
            return [leaf(v)] if name_leaf(k) == name else []
        return [leaf(named[0][1])]
    if explode:
        if kind == "array":
            if any(k != name for k, _, _ in named):
                return []
            return [[leaf(v) for _, v, _ in named]]
        if any(not sep for _, _, sep in named):
            return []
        return [{k: leaf(v) for k, v, _ in named}]
    if len(named) != 1 or named[0][0] != name:
        return []
    return _simple(named[0][1], kind, False, leaf)


def _both(raw: str, decode: Leaf, body: Callable[[str, Leaf], list]) -> list:
    """Strict reading (split raw, decode the pieces) and lenient reading (decode, then split)."""
    out = []
    for text, leaf in ((raw, decode), (_safe(decode, raw), lambda s: s)):
        if text is None:
            continue
        try:
            for r in body(text, leaf):
                if r is not None and r not in out:
                    out.append(r)
        except (UnicodeDecodeError, ValueError):
            continue
    return out


def _safe(decode: Leaf, raw: str) -> str | None:
    try:
        return decode(raw)
    except (UnicodeDecodeError, ValueError):
        return None


# ------------------------------------------------------------------------------------------------- public decoders (3.0)


def decode_path(raw_segment: str, name: str, style: str | None, explode: bool | None, kind: str) -> list:
    """``raw_segment``: what stands in place of ``{name}`` in the request target, still percent-encoded."""
    st, ex = effective("path", style, explode)
    if st == "simple":
        return _both(raw_segment, pct_decode, lambda t, leaf: _simple(t, kind, ex, leaf))
    if st == "label":
        return _both(raw_segment, pct_decode, lambda t, leaf: _label(t, kind, ex, leaf))
    if st == "matrix":
        return _both(
            raw_segment, pct_decode,
            lambda t, leaf: _matrix(t, name, kind, ex, leaf, leaf),
        )
    raise Undefined(f"path style {st}")


def decode_query(pairs: list[tuple[str, str]], name: str, style: str | None, explode: bool | None, kind: str,
                 properties: list[str] | None = None) -> list:
    """``pairs``: raw pairs from ``split_query``.  ``properties``: declared property names (exploded form objects)."""
    st, ex = effective("query", style, explode)
    decoded = []
    for k, v in pairs:
        dk = _safe(form_decode, k)
        if dk is None:
            continue
        decoded.append((dk, v))
    mine = [v for k, v in decoded if k == name]
    if st == "deepObject":
        if kind != "object":
            raise Undefined("deepObject is defined for objects only")
        out: dict[str, str] = {}
        prefix = name + "["
        for k, v in decoded:
            if k.startswith(prefix) and k.endswith("]"):
                dv = _safe(form_decode, v)
                if dv is None:
                    return []
                out[k[len(prefix):-1]] = dv
        return [out] if out else [ABSENT]
    if st in ("spaceDelimited", "pipeDelimited") and kind != "array":
        raise Undefined(f"{st} is defined for arrays only")
    delimiter = {"form": ",", "spaceDelimited": " ", "pipeDelimited": "|"}.get(st)
    if delimiter is None:
        raise Undefined(f"query style {st}")
    if kind == "primitive":
        if not mine:
            return [ABSENT]
        if len(mine) > 1:
            return [[_safe(form_decode, v) for v in mine]]
        return _both(mine[0], form_decode, lambda t, leaf: [leaf(t)])
    if kind == "array":
        if not mine:
            return [ABSENT]
        if ex:
            vals = [_safe(form_decode, v) for v in mine]
            return [] if any(v is None for v in vals) else [vals]
        if len(mine) > 1:
            return []
        raw = mine[0]
        out = _both(raw, form_decode, lambda t, leaf: _simple(t, "array", False, leaf, delimiter))
        if delimiter == " ":
            # strict reading of the raw string: the space is spelled "%20" or "+"
            out += _both(raw.replace("%20", "+"), form_decode, lambda t, leaf: _simple(t, "array", False, leaf, "+"))
        return out
    # object
    if ex:
        names = set(properties or [])
        obj = {}
        for k, v in decoded:
            if k in names:
                dv = _safe(form_decode, v)
                if dv is None:
                    return []
                obj[k] = dv
        return [obj] if obj else [ABSENT]
    if not mine:
        return [ABSENT]
    if len(mine) > 1:
        return []
    return _both(mine[0], form_decode, lambda t, leaf: _simple(t, "object", False, leaf, ","))


def decode_header(value: str | None, explode: bool | None, kind: str) -> list:
    """Header parameters always use ``simple``; header values are not percent-encoded."""
    if value is None:
        return [ABSENT]
    _, ex = effective("header", "simple", explode)
    out = _simple(value, kind, ex, lambda s: s)
    if kind != "primitive":
        # optional whitespace after the comma is legal in HTTP list syntax
        out += _simple(value, kind, ex, lambda s: s.strip(" "))
    return [r for r in out if r is not None]


def decode_cookie(pairs: list[tuple[str, str]], name: str, explode: bool | None, kind: str) -> list:
    """Cookie parameters always use ``form``; only explode=false is expressible for arrays/objects."""
    _, ex = effective("cookie", "form", explode)
    mine = [v for k, v in pairs if k == name]
    if not mine:
        return [ABSENT]
    if len(mine) > 1:
        return []
    if kind != "primitive" and ex:
        raise Undefined("cookie + explode=true for arrays/objects")
    raw = mine[0]
    readings = _simple(raw, kind, False, lambda s: s)
    # a client may percent-encode or double-quote cookie values; accept those spellings as well
    if len(raw) >= 2 and raw[0] == raw[-1] == '"':
        readings += _simple(raw[1:-1], kind, False, lambda s: s)
        readings += _simple(_cookie_unquote(raw[1:-1]), kind, False, lambda s: s)
    readings += _both(raw, pct_decode, lambda t, leaf: _simple(t, kind, False, leaf))
    return [r for r in readings if r is not None]


def _cookie_unquote(text: str) -> str:
    """Quoted-string spelling used by http.cookies / werkzeug: ``\\ooo`` is an octal byte, ``\\x`` is ``x``."""
    out = bytearray()
    i = 0
    while i < len(text):
        ch = text[i]
        if ch == "\\" and i + 3 < len(text) + 0 and text[i + 1:i + 4].isdigit() and all(c in "01234567" for c in text[i + 1:i + 4]):
            out.append(int(text[i + 1:i + 4], 8) & 0xFF)
            i += 4
        elif ch == "\\" and i + 1 < len(text):
            out += text[i + 1].encode("latin-1", "replace")
            i += 2
        else:
            out += ch.encode("latin-1", "replace")
            i += 1
    try:
        return out.decode("utf-8")
    except UnicodeDecodeError:
        return out.decode("latin-1")


def decode_json_content(text: str | None) -> list:
    """``content: {application/json: ...}`` parameters: the (already URL-/cookie-decoded) text is a JSON document."""
    if text is None:
        return [ABSENT]
    try:
        return [json.loads(text)]
    except ValueError:
        return []


def json_equal(a: Any, b: Any) -> bool:
    """JSON equality: booleans are not numbers, 1 == 1.0, key order is irrelevant."""
    if isinstance(a, bool) or isinstance(b, bool):
        return isinstance(a, bool) and isinstance(b, bool) and a == b
    if isinstance(a, (int, float)) and isinstance(b, (int, float)):
        return a == b
    if isinstance(a, (list, tuple)) and isinstance(b, (list, tuple)):
        return len(a) == len(b) and all(json_equal(x, y) for x, y in zip(a, b))
    if isinstance(a, dict) and isinstance(b, dict):
        return set(a) == set(b) and all(json_equal(a[k], b[k]) for k in a)
    return type(a) is type(b) and a == b


# ------------------------------------------------------------------------------------------------- Swagger 2.0


def decode_collection(location: str, material: Any, name: str, collection_format: str | None, kind: str) -> list:
    """Swagger 2.0.  ``material``: raw path segment (path), raw pairs (query/formData), header value (header)."""
    fmt = collection_format or "csv"
    if location == "path":
        if fmt == "multi":
            raise Undefined("multi is valid only for query and formData")
        if kind == "primitive":
            return _both(material, pct_decode, lambda t, leaf: [leaf(t)])
        d = COLLECTION_DELIMITER[fmt]
        return _both(material, pct_decode, lambda t, leaf: _simple(t, "array", False, leaf, d))
    if location == "header":
        if material is None:
            return [ABSENT]
        if fmt == "multi":
            raise Undefined("multi is valid only for query and formData")
        if kind == "primitive":
            return [material]
        d = COLLECTION_DELIMITER[fmt]
        return _simple(material, "array", False, lambda s: s, d)
    if location in ("query", "formData"):
        decoded = [(dk, v) for k, v in material if (dk := _safe(form_decode, k)) is not None]
        mine = [v for k, v in decoded if k == name]
        if not mine:
            return [ABSENT]
        if kind == "primitive":
            if len(mine) > 1:
                return [[_safe(form_decode, v) for v in mine]]
            return _both(mine[0], form_decode, lambda t, leaf: [leaf(t)])
        if fmt == "multi":
            vals = [_safe(form_decode, v) for v in mine]
            return [] if any(v is None for v in vals) else [vals]
        if len(mine) > 1:
            return []
        d = COLLECTION_DELIMITER[fmt]
        out = _both(mine[0], form_decode, lambda t, leaf: _simple(t, "array", False, leaf, d))
        if d == " ":
            out += _both(mine[0].replace("%20", "+"), form_decode, lambda t, leaf: _simple(t, "array", False, leaf, "+"))
        return out
    raise Undefined(f"location {location}")


# ------------------------------------------------------------------------------------------------- ambiguity

_COOKIE_FORBIDDEN = set(' ",;\\') | {chr(c) for c in range(0x21)} | {chr(0x7F)}  # RFC 6265 cookie-octet excludes these


def _strings_of(value: Any) -> list[str]:
    """Canonical strings of all leaves (and keys) of a flat value; None in the list marks a non-primitive leaf."""
    if isinstance(value, (list, tuple)):
        return [canonical(v) if kind_of(v) == "primitive" else None for v in value]  # type: ignore[misc]
    if isinstance(value, dict):
        out = []
        for k, v in value.items():
            out.append(str(k))
            out.append(canonical(v) if kind_of(v) == "primitive" else None)  # type: ignore[arg-type]
        return out
    return [canonical(value)]  # type: ignore[list-item]


def delimiters(location: str, style: str | None, explode: bool | None, kind: str, collection_format: str | None = None) -> list[str]:
    """Characters that the style itself uses to separate items/keys of this kind of value."""
    if kind == "primitive":
        return []
    if collection_format is not None or style == "collection":
        fmt = collection_format or "csv"
        return [] if fmt == "multi" else [COLLECTION_DELIMITER[fmt]]
    st, ex = effective(location, style, explode)
    if st == "simple":
        d = [","]
    elif st == "label":
        d = ["."] if ex else [",", "."]
    elif st == "matrix":
        d = [";"] if ex else [",", ";"]
    elif st == "form":
        d = [] if ex else [","]
    elif st == "spaceDelimited":
        d = [" "]
    elif st == "pipeDelimited":
        d = ["|"]
    elif st == "deepObject":
        d = ["[", "]"]
    else:
        d = []
    if kind == "object" and ex and st != "deepObject":
        d = d + ["="]
    if location == "header" and kind != "primitive":
        d = d + [" "]  # optional whitespace around list items is not significant in HTTP
    return d


def ambiguity(expected: Any, location: str, style: str | None, explode: bool | None, declared_kind: str,
              collection_format: str | None = None, json_content: bool = False) -> str | None:
    """Why the declared serialisation cannot carry ``expected`` unambiguously (None = it can).

    These are the exemptions of C06: a case for which this returns a reason is *trivial*, never a violation.
    """
    kind = kind_of(expected)
    if json_content:
        if location == "header":
            return _header_cannot_carry(json.dumps(expected))
        return None
    if kind != declared_kind:
        return "shape_differs_from_declared_type"
    strings = _strings_of(expected)
    if any(s is None for s in strings):
        return "nested_value_in_flat_style"
    if kind == "array":
        if len(expected) == 0:
            return "empty_array_vs_empty_string_vs_absent"
        if all(s == "" for s in strings):
            return "array_of_empty_strings_vs_empty_string"
    if kind == "object":
        if len(expected) == 0:
            return "empty_object_vs_empty_string_vs_absent"
        if any(k == "" for k in map(str, expected)):
            return "empty_property_name"
    for d in delimiters(location, style, explode, kind, collection_format):
        if any(d in s for s in strings):
            return "item_contains_style_delimiter"
    if location == "path":
        if kind == "primitive" and strings[0] == "":
            return "empty_path_segment"
    if location == "header":
        for s in strings:
            reason = _header_cannot_carry(s)
            if reason:
                return reason
    if location == "cookie":
        for s in strings:
            if any(ch in _COOKIE_FORBIDDEN or ord(ch) > 0x7E for ch in s):
                return "value_a_cookie_cannot_carry"
    return None


def _header_cannot_carry(s: str) -> str | None:
    try:
        s.encode("latin-1")
    except UnicodeEncodeError:
        return "value_a_header_cannot_carry"
    if any(ord(ch) < 0x20 and ch != "\t" or ord(ch) == 0x7F for ch in s):
        return "value_a_header_cannot_carry"
    if s != s.strip(" \t"):
        return "value_a_header_cannot_carry"  # leading/trailing optional whitespace is not part of a field value
    return None
