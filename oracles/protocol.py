"""Reference automaton for the engine event protocol (C11), written from the property text.

Input: the list of events yielded by the engine (real event objects; only their class names, ids, phase, status and
suite ids are read).  Output: list of (kind, detail) protocol violations.
"""

from __future__ import annotations

from typing import Any

PHASE_ORDER = ["PROBING", "EXAMPLES", "COVERAGE", "FUZZING", "STATEFUL_TESTING"]
SEVERITY = {"SUCCESS": 0, "FAILURE": 1, "ERROR": 2, "INTERRUPTED": 3}


def _name(x: Any) -> str:
    return getattr(x, "name", str(x))


def _phase_of(event: Any) -> str:
    phase = event.phase
    inner = getattr(phase, "name", phase)  # Phase(name=PhaseName.X) or PhaseName.X
    return _name(inner)


def check_protocol(events: list, *, interrupted: bool, terminated: bool = True) -> list[tuple[str, dict]]:
    """``interrupted``: the run was interrupted (Ctrl-C arrived, the consumer asked to stop, or user code raised
    KeyboardInterrupt) - the only situation in which an announced scenario may stay open."""
    out: list[tuple[str, dict]] = []

    def bad(kind: str, **detail: Any) -> None:
        out.append((kind, detail))

    if not terminated:
        bad("no_termination")
    names = [type(e).__name__ for e in events]
    if not events:
        bad("no_events")
        return out
    if names[0] != "EngineStarted":
        bad("first_event_not_start", first=names[0])
    if names.count("EngineStarted") != 1:
        bad("start_event_count", count=names.count("EngineStarted"))
    if names.count("EngineFinished") != 1:
        bad("finish_event_count", count=names.count("EngineFinished"))
    elif names[-1] != "EngineFinished":
        bad("events_after_finish", after=names[names.index("EngineFinished") + 1:][:5])
    saw_interrupted_event = "Interrupted" in names
    may_be_open = interrupted or saw_interrupted_event

    open_phase: str | None = None
    seen_phases: list[str] = []
    closed_phases: list[str] = []
    open_suites: dict[Any, str] = {}  # suite id -> phase
    open_scenarios: dict[Any, tuple[Any, str]] = {}  # scenario id -> (suite id, phase)
    closed_suites: set = set()
    closed_scenarios: set = set()
    worst: dict[str, int] = {}

    for idx, event in enumerate(events):
        name = names[idx]
        if name == "PhaseStarted":
            ph = _phase_of(event)
            if open_phase is not None:
                bad("phase_opened_inside_phase", phase=ph, open=open_phase)
            if ph in seen_phases:
                bad("phase_opened_twice", phase=ph)
            if seen_phases and ph in PHASE_ORDER and seen_phases[-1] in PHASE_ORDER and PHASE_ORDER.index(ph) < PHASE_ORDER.index(seen_phases[-1]):
                bad("phase_out_of_order", phase=ph, previous=seen_phases[-1])
            seen_phases.append(ph)
            open_phase = ph
        elif name == "PhaseFinished":
            ph = _phase_of(event)
            if open_phase != ph:
                bad("phase_closed_without_open", phase=ph, open=open_phase)
            for sid, sph in list(open_suites.items()):
                if sph == ph:
                    bad("phase_closed_with_open_suite", phase=ph)
            open_phase = None
            closed_phases.append(ph)
            status = _name(event.status)
            if status != "SKIP" or ph in worst:
                have = SEVERITY.get(status, -1)
                need = worst.get(ph, -1)
                if need > have:
                    bad("phase_status_better_than_worst_scenario", phase=ph, status=status,
                        worst=[k for k, v in SEVERITY.items() if v == need][0])
        elif name == "SuiteStarted":
            ph = _phase_of(event)
            if open_phase != ph:
                bad("suite_outside_its_phase", phase=ph, open=open_phase)
            if event.id in open_suites or event.id in closed_suites:
                bad("suite_opened_twice", phase=ph)
            open_suites[event.id] = ph
        elif name == "SuiteFinished":
            ph = _phase_of(event)
            if event.id not in open_suites:
                bad("suite_closed_without_open", phase=ph)
            else:
                del open_suites[event.id]
                closed_suites.add(event.id)
            if open_phase != ph:
                bad("suite_outside_its_phase", phase=ph, open=open_phase)
        elif name == "ScenarioStarted":
            ph = _phase_of(event)
            if event.suite_id not in open_suites:
                bad("scenario_outside_its_suite", phase=ph, what="start")
            if event.id in open_scenarios or event.id in closed_scenarios:
                bad("scenario_opened_twice", phase=ph)
            open_scenarios[event.id] = (event.suite_id, ph)
        elif name == "ScenarioFinished":
            ph = _phase_of(event)
            if event.id not in open_scenarios:
                bad("scenario_closed_without_open", phase=ph)
            else:
                suite_id, _ = open_scenarios.pop(event.id)
                closed_scenarios.add(event.id)
                if suite_id != event.suite_id:
                    bad("scenario_suite_id_mismatch", phase=ph)
            if event.suite_id not in open_suites:
                bad("scenario_outside_its_suite", phase=ph, what="finish")
            status = _name(event.status)
            if status in SEVERITY:
                worst[ph] = max(worst.get(ph, -1), SEVERITY[status])
        elif name in ("EngineStarted", "EngineFinished", "NonFatalError", "Interrupted", "FatalError"):
            pass
        else:
            bad("unknown_event", name=name)
    if open_phase is not None:
        bad("phase_never_closed", phase=open_phase)
    for sid, ph in open_suites.items():
        bad("suite_never_closed", phase=ph)
    if open_scenarios and not may_be_open:
        phases = sorted({ph for _, ph in open_scenarios.values()})
        bad("scenario_never_closed_without_interrupt", phases=phases, count=len(open_scenarios))
    # every phase is announced unless the run was interrupted
    if not may_be_open:
        missing = [p for p in PHASE_ORDER if p not in seen_phases]
        if missing:
            bad("phases_missing_without_interrupt", missing=missing)
    return out
