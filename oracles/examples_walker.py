"""Independent walker over a RAW OpenAPI document: which explicit input examples does it provide, and for which slot.

Own code written from the OpenAPI texts (2.0 / 3.0 / 3.1) and the wording of property C17; it does not import
schemathesis.  It is used as the reference for "every example in the schema is sent verbatim".

A *slot* is where a value travels in a request:

* ``{"kind": "param", "in": query|header|path|cookie, "name": ...}``
* ``{"kind": "body", "media_type": <declared media type> | None}`` (``None``: Swagger 2.0 body parameter - its
  examples are not bound to one of the ``consumes`` media types)

An *entry* = slot + ``ptr`` (where inside the slot's value the example sits: ``["prop", name]`` / ``["item"]`` steps;
``anyOf``/``oneOf``/``allOf`` branches do not move the pointer - a branch describes the same value) + ``value`` +
``source`` (which keyword supplied it; used for counting and signatures only).

What is walked (and nothing else):

* OpenAPI 3.x parameter: ``example``, ``examples.{n}.value`` (``examples.{n}`` may be a ``$ref`` to
  ``#/components/examples/..``), the parameter's ``schema``;
* OpenAPI 3.x request body media type: ``example``, ``examples.{n}.value`` (same ``$ref`` rule), its ``schema``;
* Swagger 2.0 parameter (incl. the body parameter): ``x-example``, ``x-examples.{n}.value``; body parameter's ``schema``;
* Schema Object: ``example``; ``examples`` (array) only in 3.1 (it is not a Schema Object keyword in 2.0 / 3.0);
  recursively ``properties.*``, ``items``, ``anyOf[*]``, ``oneOf[*]``, ``allOf[*]``, through local ``$ref``.

Deliberately not walked: ``externalValue`` (needs the network), ``content`` on parameters, ``formData`` parameters,
response examples (they are not examples *for an input*), ``default`` / ``enum`` (not examples).
"""

from __future__ import annotations

import re
from typing import Any, Iterator
from urllib.parse import parse_qsl, unquote, urlsplit

HTTP_METHODS = ("get", "put", "post", "delete", "options", "head", "patch", "trace")
MAX_DEPTH = 8


def spec_of(doc: dict) -> str:
    if "swagger" in doc:
        return "2.0"
    return "3.1" if str(doc.get("openapi", "")).startswith("3.1") else "3.0"


def deref(doc: dict, obj: Any, limit: int = 8) -> Any:
    """Follow local ``$ref``s (``#/a/b/c``); anything else is returned as is."""
    while isinstance(obj, dict) and isinstance(obj.get("$ref"), str) and limit > 0:
        ref = obj["$ref"]
        if not ref.startswith("#/"):
            return obj
        cur: Any = doc
        for part in ref[2:].split("/"):
            part = part.replace("~1", "/").replace("~0", "~")
            if isinstance(cur, dict) and part in cur:
                cur = cur[part]
            else:
                return obj
        obj = cur
        limit -= 1
    return obj


def operations(doc: dict) -> Iterator[tuple[str, str, dict, dict]]:
    for path, item in (doc.get("paths") or {}).items():
        item = deref(doc, item)
        if not isinstance(item, dict):
            continue
        for method in HTTP_METHODS:
            if isinstance(item.get(method), dict):
                yield path, method, item, item[method]


def label(path: str, method: str) -> str:
    return f"{method.upper()} {path}"


def effective_parameters(doc: dict, path_item: dict, op: dict) -> list[dict]:
    """Operation-level parameters override path-level ones with the same (name, in)."""
    merged: dict[tuple, dict] = {}
    for source in (path_item.get("parameters") or [], op.get("parameters") or []):
        for p in source:
            p = deref(doc, p)
            if isinstance(p, dict) and "name" in p and "in" in p:
                merged[(p["name"], p["in"])] = p
    return list(merged.values())


def _named_examples(doc: dict, container: Any) -> Iterator[tuple[str, Any]]:
    if not isinstance(container, dict):
        return
    for name, ex in container.items():
        was_ref = isinstance(ex, dict) and "$ref" in ex
        ex = deref(doc, ex)
        if isinstance(ex, dict) and "value" in ex:
            yield ("examples.$ref" if was_ref else "examples.value"), ex["value"]


def walk_schema(doc: dict, schema: Any, spec: str, ptr: list | None = None, via: str = "schema", depth: int = 0) -> Iterator[dict]:
    """Schema-level examples below ``schema``: dicts with ptr / value / source."""
    ptr = ptr or []
    was_ref = isinstance(schema, dict) and "$ref" in schema
    schema = deref(doc, schema)
    if not isinstance(schema, dict) or "$ref" in schema or depth > MAX_DEPTH:
        return
    tag = via + ("($ref)" if was_ref else "")
    if "example" in schema:
        yield {"ptr": list(ptr), "value": schema["example"], "source": tag + ".example"}
    if spec == "3.1" and isinstance(schema.get("examples"), list):
        for v in schema["examples"]:
            yield {"ptr": list(ptr), "value": v, "source": tag + ".examples"}
    props = schema.get("properties")
    if isinstance(props, dict):
        for name, sub in props.items():
            yield from walk_schema(doc, sub, spec, ptr + [["prop", name]], via + ".property", depth + 1)
    if isinstance(schema.get("items"), dict):
        yield from walk_schema(doc, schema["items"], spec, ptr + [["item"]], via + ".items", depth + 1)
    for comb in ("anyOf", "oneOf", "allOf"):
        if isinstance(schema.get(comb), list):
            for branch in schema[comb]:
                yield from walk_schema(doc, branch, spec, ptr, via + "." + comb, depth + 1)


def consumes(doc: dict, op: dict) -> list[str]:
    return list(op.get("consumes") or doc.get("consumes") or [])


def walk(doc: dict) -> list[dict]:
    """All (operation, slot, ptr, value, source) entries of the document."""
    spec = spec_of(doc)
    out: list[dict] = []
    for path, method, item, op in operations(doc):
        base = {"op": label(path, method)}
        for p in effective_parameters(doc, item, op):
            loc = p["in"]
            if spec == "2.0":
                if loc == "formData":
                    continue
                slot = {"kind": "body", "media_type": None} if loc == "body" else {"kind": "param", "in": loc, "name": p["name"]}
                where = "body" if loc == "body" else "parameter"
                if "x-example" in p:
                    out.append({**base, **slot, "ptr": [], "value": p["x-example"], "source": where + ".x-example"})
                for src, v in _named_examples(doc, p.get("x-examples")):
                    out.append({**base, **slot, "ptr": [], "value": v, "source": where + ".x-" + src})
                if loc == "body" and "schema" in p:
                    for e in walk_schema(doc, p["schema"], spec):
                        out.append({**base, **slot, **e})
                continue
            if loc not in ("query", "header", "path", "cookie"):
                continue
            slot = {"kind": "param", "in": loc, "name": p["name"]}
            if "example" in p:
                out.append({**base, **slot, "ptr": [], "value": p["example"], "source": "parameter.example"})
            for src, v in _named_examples(doc, p.get("examples")):
                out.append({**base, **slot, "ptr": [], "value": v, "source": "parameter." + src})
            if "schema" in p:
                for e in walk_schema(doc, p["schema"], spec):
                    out.append({**base, **slot, **e})
        if spec != "2.0":
            body = deref(doc, op.get("requestBody"))
            if isinstance(body, dict):
                for mt, media in (body.get("content") or {}).items():
                    if not isinstance(media, dict):
                        continue
                    slot = {"kind": "body", "media_type": mt}
                    if "example" in media:
                        out.append({**base, **slot, "ptr": [], "value": media["example"], "source": "media_type.example"})
                    for src, v in _named_examples(doc, media.get("examples")):
                        out.append({**base, **slot, "ptr": [], "value": v, "source": "media_type." + src})
                    if "schema" in media:
                        for e in walk_schema(doc, media["schema"], spec):
                            out.append({**base, **slot, **e})
    return out


# ---------------------------------------------------------------------------------------------------------------------
# declared inputs of an operation (for "required inputs are never missing")

def declared_inputs(doc: dict, path: str, method: str) -> dict:
    """{"parameters": [{name,in,required,schema}], "body": {"required": bool, "content": {mt: schema}} | None}"""
    spec = spec_of(doc)
    item = deref(doc, doc["paths"][path])
    op = item[method]
    params = []
    body = None
    for p in effective_parameters(doc, item, op):
        loc = p["in"]
        if spec == "2.0":
            if loc == "body":
                mts = consumes(doc, op) or ["application/json"]
                body = {"required": bool(p.get("required")), "content": {mt: p.get("schema", {}) for mt in mts}}
                continue
            if loc == "formData":
                continue
            schema = {k: v for k, v in p.items() if k not in ("name", "in", "required", "description", "x-example", "x-examples")}
        else:
            schema = p.get("schema", {})
        params.append({"name": p["name"], "in": loc, "required": bool(p.get("required")) or loc == "path", "schema": schema})
    if spec != "2.0":
        rb = deref(doc, op.get("requestBody"))
        if isinstance(rb, dict):
            body = {"required": bool(rb.get("required")),
                    "content": {mt: (m.get("schema", {}) if isinstance(m, dict) else {}) for mt, m in (rb.get("content") or {}).items()}}
    return {"parameters": params, "body": body}


# ---------------------------------------------------------------------------------------------------------------------
# decoding a logged request (default-style primitives only, see the property module's ASSUMPTIONS)

def decode_request(url: str, headers: dict, body: bytes | None, path_template: str) -> dict:
    parts = urlsplit(url)
    query: dict[str, list[str]] = {}
    for k, v in parse_qsl(parts.query, keep_blank_values=True):
        query.setdefault(k, []).append(v)
    hdrs = {str(k).lower(): (v.decode("latin-1") if isinstance(v, bytes) else str(v)) for k, v in headers.items()}
    cookies: dict[str, str] = {}
    if "cookie" in hdrs:
        for chunk in hdrs["cookie"].split("; "):
            if "=" in chunk:
                k, v = chunk.split("=", 1)
                cookies.setdefault(k, v)
    path_values: dict[str, str] | None = None
    names = re.findall(r"\{([^}]+)\}", path_template)
    pattern = "^" + re.sub(r"\\\{[^}]+\\\}", "([^/]*)", re.escape(path_template)) + "$"
    m = re.match(pattern, parts.path)
    if m:
        path_values = {n: unquote(g) for n, g in zip(names, m.groups())}
    content_type = hdrs.get("content-type")
    return {"query": query, "header": hdrs, "cookie": cookies, "path": path_values, "path_matched": m is not None,
            "raw_path": parts.path, "body": body, "content_type": content_type}


def wire_strings(value: Any) -> list[str] | None:
    """The strings that carry ``value`` unchanged in a string-only location; None = the texts leave the form open."""
    if isinstance(value, bool):
        return ["true", "True"] if value else ["false", "False"]
    if isinstance(value, str):
        return [value]
    if isinstance(value, int):
        return [str(value)]
    if isinstance(value, float):
        return [repr(value), str(value)]
    return None  # null, arrays, objects: depends on style / is not defined
