"""Reference merge for C08, written from the OpenAPI 3.0 text - independent of schemathesis.

Input: the RAW documents exactly as written (Python dicts with ``str`` keys), one root file plus optional sibling files.
Output: for every documented operation (path x HTTP method) the *effective* definition

* parameters: path-level parameters, each replaced by an operation-level parameter with the same (name, in)
  (OAS 3.0.3 "Path Item Object / parameters": "These parameters can be overridden at the operation level");
* request body: every media type of ``requestBody.content`` with the ``required`` flag;
* security parameters: one per active apiKey / http scheme unless a parameter with that (name, in) is declared;
* ``$ref``: resolved by the local pointer walker below, relative to the FILE THAT CONTAINS the reference (RFC 3986);

or ``malformed`` with a reason when an entry cannot be given that meaning (no ``in``/``name``, non-object ``schema``,
dangling ``$ref``).  Nothing here imports schemathesis or jsonschema.
"""

from __future__ import annotations

from typing import Any

HTTP_METHODS = ("get", "put", "post", "delete", "options", "head", "patch", "trace")
PARAM_LOCATIONS = ("path", "query", "header", "cookie")


class Dangling(Exception):
    pass


class Malformed(Exception):
    pass


class Files:
    """A root document and its siblings, addressed by relative file name."""

    def __init__(self, root_name: str, files: dict[str, dict]):
        self.root_name = root_name
        self.files = files

    @property
    def root(self) -> dict:
        return self.files[self.root_name]

    def pointer(self, file: str, pointer: str) -> Any:
        if file not in self.files:
            raise Dangling(f"{file}: no such file")
        node: Any = self.files[file]
        if pointer in ("", "/"):
            return node
        if not pointer.startswith("/"):
            raise Dangling(f"{file}#{pointer}: not a JSON pointer")
        for raw in pointer[1:].split("/"):
            token = raw.replace("~1", "/").replace("~0", "~")
            if isinstance(node, dict):
                if token not in node:
                    raise Dangling(f"{file}#{pointer}: no member {token!r}")
                node = node[token]
            elif isinstance(node, list):
                if not token.isdigit() or int(token) >= len(node):
                    raise Dangling(f"{file}#{pointer}: no index {token!r}")
                node = node[int(token)]
            else:
                raise Dangling(f"{file}#{pointer}: scalar on the way")
        return node

    def resolve(self, file: str, ref: Any) -> tuple[str, Any]:
        """Resolve a reference written inside ``file``; returns (file of the target, target)."""
        if not isinstance(ref, str):
            raise Dangling(f"non-string $ref {ref!r}")
        target, _, fragment = ref.partition("#")
        target_file = target or file
        return target_file, self.pointer(target_file, fragment)

    def deref(self, file: str, node: Any, limit: int = 16) -> tuple[str, Any]:
        """Follow a chain of ``{"$ref": ...}`` objects."""
        hops = 0
        while isinstance(node, dict) and "$ref" in node:
            hops += 1
            if hops > limit:
                raise Dangling("reference cycle")
            file, node = self.resolve(file, node["$ref"])
        return file, node


class RootScoped(Files):
    """NOT the reference: the reading in which every fragment-only reference is looked up in the root document, whatever
    file it was written in.  Used only to *label* an already established difference (signature fact ``cause``)."""

    def resolve(self, file: str, ref: Any) -> tuple[str, Any]:
        if isinstance(ref, str) and ref.startswith("#"):
            return super().resolve(self.root_name, ref)
        return super().resolve(file, ref)


def _parameter(files: Files, file: str, entry: Any) -> dict:
    try:
        pfile, definition = files.deref(file, entry)
    except Dangling as exc:
        raise Malformed(f"dangling_ref: {exc}") from None
    if not isinstance(definition, dict):
        raise Malformed("parameter_not_object")
    if "in" not in definition:
        raise Malformed("parameter_without_in")
    if "name" not in definition:
        raise Malformed("parameter_without_name")
    if definition["in"] not in PARAM_LOCATIONS:
        raise Malformed("parameter_unknown_location")
    if "schema" in definition:
        try:
            sfile, schema = files.deref(pfile, definition["schema"])
        except Dangling as exc:
            raise Malformed(f"dangling_ref: {exc}") from None
        if not isinstance(schema, dict):
            raise Malformed("schema_not_object")
    elif "content" not in definition:
        raise Malformed("parameter_without_schema")
    else:
        raise Malformed("content_parameters_not_modelled")
    return {
        "name": definition["name"],
        "in": definition["in"],
        "required": bool(definition.get("required", False)),
        "schema": definition["schema"],
        "file": pfile,
    }


def _parameters(files: Files, file: str, entries: Any) -> list[dict]:
    if entries is None:
        return []
    if not isinstance(entries, list):
        raise Malformed("parameters_not_array")
    return [_parameter(files, file, e) for e in entries]


def _body(files: Files, file: str, operation: dict) -> dict[str, dict]:
    if "requestBody" not in operation:
        return {}
    try:
        bfile, body = files.deref(file, operation["requestBody"])
    except Dangling as exc:
        raise Malformed(f"dangling_ref: {exc}") from None
    if not isinstance(body, dict) or not isinstance(body.get("content"), dict):
        raise Malformed("request_body_without_content")
    out = {}
    for media_type, media in body["content"].items():
        if not isinstance(media, dict):
            raise Malformed("media_type_not_object")
        schema = media.get("schema", {})
        try:
            files.deref(bfile, schema)
        except Dangling as exc:
            raise Malformed(f"dangling_ref: {exc}") from None
        out[media_type] = {"required": bool(body.get("required", False)), "schema": schema, "file": bfile}
    return out


def _security(files: Files, operation: dict, declared: set[tuple[str, str]]) -> list[dict]:
    root = files.root
    requirements = operation["security"] if "security" in operation else root.get("security", [])
    active = [name for requirement in requirements or [] for name in requirement]
    schemes = root.get("components", {}).get("securitySchemes", {})
    out: list[dict] = []
    for name, scheme in schemes.items():
        if name not in active:
            continue
        _, scheme = files.deref(files.root_name, scheme)
        if scheme.get("type") == "apiKey":
            key = (scheme["name"], scheme["in"])
        elif scheme.get("type") == "http":
            key = ("Authorization", "header")
        else:
            continue
        if key in declared or any((p["name"], p["in"]) == key for p in out):
            continue
        out.append({"name": key[0], "in": key[1], "required": True, "schema": None, "file": None, "security": True})
    return out


def reference(files: Files, with_security: bool = True) -> list[dict]:
    """One entry per documented operation (or per path when the whole path item is unreadable)."""
    out: list[dict] = []
    for path, raw_item in files.root.get("paths", {}).items():
        behind = None
        if isinstance(raw_item, dict) and "$ref" in raw_item:
            ref = raw_item["$ref"]
            behind = "same_file" if isinstance(ref, str) and ref.startswith("#") else "sibling_file"
        try:
            item_file, item = files.deref(files.root_name, raw_item)
            if not isinstance(item, dict):
                raise Dangling("path item is not an object")
        except Dangling as exc:
            out.append({"path": path, "method": None, "status": "malformed", "reason": f"dangling_ref: {exc}",
                        "path_item_ref": behind, "whole_path": True})
            continue
        shared_error = None
        shared: list[dict] = []
        try:
            shared = _parameters(files, item_file, item.get("parameters"))
        except Malformed as exc:
            shared_error = str(exc)
        for method, operation in item.items():
            if method not in HTTP_METHODS:
                continue
            entry: dict[str, Any] = {"path": path, "method": method, "path_item_ref": behind, "file": item_file,
                                     "operation_id": operation.get("operationId") if isinstance(operation, dict) else None,
                                     "whole_path": False}
            try:
                if shared_error is not None:
                    raise Malformed(shared_error)
                if not isinstance(operation, dict):
                    raise Malformed("operation_not_object")
                own = _parameters(files, item_file, operation.get("parameters"))
                merged: dict[tuple[str, str], dict] = {}
                overridden: dict[tuple[str, str], dict] = {}
                for p in shared:
                    merged[(p["name"], p["in"])] = {**p, "level": "path"}
                for p in own:
                    key = (p["name"], p["in"])
                    if key in merged and merged[key]["level"] == "path":
                        overridden[key] = merged[key]
                    merged[key] = {**p, "level": "operation"}
                body = _body(files, item_file, operation)
                params = list(merged.values())
                if with_security:
                    params += _security(files, operation, set(merged))
                entry.update(status="ok", params=params, body=body,
                             overridden=[v for v in overridden.values()],
                             uses_refs_local_to_sibling=_has_local_ref(item) if item_file != files.root_name else False)
            except Malformed as exc:
                entry.update(status="malformed", reason=str(exc))
            out.append(entry)
    return out


def _has_local_ref(node: Any) -> bool:
    if isinstance(node, dict):
        ref = node.get("$ref")
        if isinstance(ref, str) and ref.startswith("#"):
            return True
        return any(_has_local_ref(v) for v in node.values())
    if isinstance(node, list):
        return any(_has_local_ref(v) for v in node)
    return False


def by_location(entry: dict) -> dict[str, dict[str, dict]]:
    out: dict[str, dict[str, dict]] = {loc: {} for loc in PARAM_LOCATIONS}
    for p in entry["params"]:
        out[p["in"]][p["name"]] = p
    return out


# ---------------------------------------------------------------------------------------------------------------
# comparison of an observed (possibly inlined) schema with the schema as written (references followed lazily)


def typed_equal(a: Any, b: Any) -> bool:
    """Equality that tells True from 1 and 1 from 1.0 (raw documents must not change scalar types)."""
    if type(a) is not type(b):
        return False
    if isinstance(a, dict):
        return a.keys() == b.keys() and all(typed_equal(v, b[k]) for k, v in a.items())
    if isinstance(a, list):
        return len(a) == len(b) and all(typed_equal(x, y) for x, y in zip(a, b))
    return a == b


def first_difference(a: Any, b: Any, where: str = "") -> dict | None:
    """First typed difference between two JSON-like values (``a`` observed, ``b`` expected)."""
    if isinstance(a, dict) and isinstance(b, dict):
        for k in a:
            if not isinstance(k, str):
                return {"at": where, "what": "key_type", "key": repr(k), "key_type": type(k).__name__}
        for k in b:
            if k not in a:
                return {"at": where, "what": "missing_key", "key": k}
        for k in a:
            if k not in b:
                return {"at": where, "what": "extra_key", "key": repr(k)}
        for k in b:
            d = first_difference(a[k], b[k], f"{where}/{k}")
            if d is not None:
                return d
        return None
    if isinstance(a, list) and isinstance(b, list):
        if len(a) != len(b):
            return {"at": where, "what": "length", "observed": len(a), "expected": len(b)}
        for i, (x, y) in enumerate(zip(a, b)):
            d = first_difference(x, y, f"{where}/{i}")
            if d is not None:
                return d
        return None
    if type(a) is not type(b):
        return {"at": where, "what": "value_type", "observed_type": type(a).__name__, "expected_type": type(b).__name__,
                "observed": repr(a)[:60], "expected": repr(b)[:60]}
    if a != b:
        return {"at": where, "what": "value", "observed": repr(a)[:60], "expected": repr(b)[:60]}
    return None


def schema_matches(files: Files, observed: Any, expected: Any, expected_file: str, budget: int = 3) -> bool | None:
    """True/False, or None when the comparison would need more than ``budget`` reference expansions on one branch
    (then nothing is claimed - recursive schemas are inlined to an implementation-chosen depth)."""
    if isinstance(expected, dict) and "$ref" in expected and isinstance(expected["$ref"], str):
        if budget == 0:
            return None
        try:
            expected_file, expected = files.resolve(expected_file, expected["$ref"])
        except Dangling:
            return None
        return schema_matches(files, observed, expected, expected_file, budget - 1)
    if isinstance(observed, dict) and "$ref" in observed and isinstance(observed["$ref"], str):
        # the implementation left a reference in place (recursion cut): nothing is claimed
        return None
    if isinstance(expected, dict):
        if not isinstance(observed, dict):
            return False
        undecided = False
        for key, value in expected.items():
            if key not in observed:
                return False
            r = schema_matches(files, observed[key], value, expected_file, budget)
            if r is False:
                return False
            if r is None:
                undecided = True
        for key in observed:
            if key not in expected:
                return False
        return None if undecided else True
    if isinstance(expected, list):
        if not isinstance(observed, list) or len(observed) != len(expected):
            return False
        results = [schema_matches(files, o, e, expected_file, budget) for o, e in zip(observed, expected)]
        if any(r is False for r in results):
            return False
        return None if any(r is None for r in results) else True
    return typed_equal(observed, expected)
