"""Independent reference for C07: which operations of a raw OpenAPI document a set of filter atoms selects.

Written from the property text ("matches at least one include filter or there are none, and matches no exclude filter")
and the OpenAPI specification.  It never imports schemathesis: it walks the raw document itself.

Atom (JSON-able dict):
    {"pol": "include"|"exclude", "attr": "path"|"method"|"name"|"tag"|"operation_id", "kind": "value"|"list"|"regex", "value": ...}
    {"pol": ..., "kind": "func", "value": <name of a predicate in PREDICATES>}
    {"pol": "exclude", "kind": "deprecated"}
    {"pol": ..., "kind": "expr", "pointer": "/x", "op": "=="|"!=", "value": <json>}
"""

from __future__ import annotations

import re
from dataclasses import dataclass, field
from typing import Any, Callable

HTTP_METHODS = ("get", "put", "post", "delete", "options", "head", "patch", "trace")
MISSING = object()


# --------------------------------------------------------------------------------------------------------------------
# raw document walking


def pointer_get(document: Any, pointer: str) -> Any:
    """RFC 6901 evaluation; MISSING when the pointer does not lead anywhere."""
    if pointer == "":
        return document
    if not pointer.startswith("/"):
        return MISSING
    node = document
    for token in pointer.split("/")[1:]:
        token = token.replace("~1", "/").replace("~0", "~")
        if isinstance(node, dict):
            if token not in node:
                return MISSING
            node = node[token]
        elif isinstance(node, list):
            if not token.isdigit() or int(token) >= len(node):
                return MISSING
            node = node[int(token)]
        else:
            return MISSING
    return node


def local_ref(document: dict, node: Any, limit: int = 16) -> Any:
    """Follow `{"$ref": "#/..."}` (local references only - the universe has no remote ones)."""
    while isinstance(node, dict) and isinstance(node.get("$ref"), str) and limit:
        ref = node["$ref"]
        if not ref.startswith("#"):
            raise ValueError(f"non-local reference {ref}")
        node = pointer_get(document, ref[1:])
        if node is MISSING:
            raise ValueError(f"dangling reference {ref}")
        limit -= 1
    return node


def deep_resolve(document: dict, node: Any, depth: int = 12) -> Any:
    """A copy of `node` with every local reference replaced by its target (bounded, the universe is not recursive)."""
    if depth == 0:
        return node
    node = local_ref(document, node)
    if isinstance(node, dict):
        return {k: deep_resolve(document, v, depth - 1) for k, v in node.items()}
    if isinstance(node, list):
        return [deep_resolve(document, v, depth - 1) for v in node]
    return node


@dataclass
class Link:
    source: str  # label
    status: str
    name: str
    target: str | None  # label of the target operation, None when it cannot be determined from the document
    by: str  # "operationId" | "operationRef"


@dataclass
class Op:
    path: str
    key: str  # method key exactly as written in the document
    raw: dict
    resolved: dict
    behind_ref: bool  # the path item is reached through a $ref
    shared_parameters: bool  # the path item declares path-level parameters
    links: list = field(default_factory=list)

    @property
    def method(self) -> str:
        return self.key.upper()

    @property
    def label(self) -> str:
        return f"{self.method} {self.path}"

    @property
    def tags(self) -> list | None:
        return self.raw.get("tags")

    @property
    def operation_id(self) -> str | None:
        return self.raw.get("operationId")

    @property
    def deprecated(self) -> bool:
        return self.raw.get("deprecated") is True

    @property
    def strict(self) -> bool:
        """Lower-case method key as the OpenAPI specification spells the fixed fields of a Path Item."""
        return self.key in HTTP_METHODS


def operations(document: dict) -> list[Op]:
    """All operations in document order, including `open` ones (method key not in lower case)."""
    out: list[Op] = []
    for path, item in document.get("paths", {}).items():
        behind_ref = isinstance(item, dict) and "$ref" in item
        item = local_ref(document, item)
        for key, definition in item.items():
            if key.lower() not in HTTP_METHODS or not isinstance(definition, dict):
                continue
            out.append(Op(path=path, key=key, raw=definition, resolved=deep_resolve(document, definition),
                          behind_ref=behind_ref, shared_parameters="parameters" in item))
    by_id = {op.operation_id: op for op in out if op.operation_id is not None and op.strict}
    by_ref = {f"#/paths/{op.path.replace('~', '~0').replace('/', '~1')}/{op.key}": op for op in out if op.strict and not op.behind_ref}
    for op in out:
        for status, response in (op.raw.get("responses") or {}).items():
            response = local_ref(document, response)
            for name, link in (response.get("links") or {}).items():
                link = local_ref(document, link)
                if "operationId" in link:
                    target, by = by_id.get(link["operationId"]), "operationId"
                else:
                    target, by = by_ref.get(link.get("operationRef")), "operationRef"
                op.links.append(Link(op.label, str(status), name, None if target is None else target.label, by))
    return out


# --------------------------------------------------------------------------------------------------------------------
# atoms

PREDICATES: dict[str, Callable[[Op], bool]] = {
    # mirrored by real matcher functions of the same names in props/c07.py
    "get_with_path_parameter": lambda op: op.method == "GET" and "{" in op.path,
    "without_operation_id": lambda op: op.operation_id is None,
}


def atom_id(atom: dict) -> str:
    kind = atom["kind"]
    if kind in ("value", "list", "regex"):
        return f"{atom['pol']}:{atom['attr']}:{kind}:{atom['value']!r}"
    if kind == "func":
        return f"{atom['pol']}:func:{atom['value']}"
    if kind == "deprecated":
        return "exclude:deprecated"
    return f"{atom['pol']}:expr:{atom['pointer']} {atom['op']} {atom['value']!r}"


def _attribute(op: Op, attr: str) -> Any:
    if attr == "path":
        return op.path
    if attr == "method":
        return op.method
    if attr == "name":
        return op.label
    if attr == "tag":
        return op.tags
    if attr == "operation_id":
        return op.operation_id
    raise KeyError(attr)


def atom_matches(atom: dict, op: Op, *, raw_pointer: bool = False) -> bool:
    kind = atom["kind"]
    if kind == "deprecated":
        return op.deprecated
    if kind == "func":
        return PREDICATES[atom["value"]](op)
    if kind == "expr":
        found = pointer_get(op.raw if raw_pointer else op.resolved, atom["pointer"])
        equal = found is not MISSING and _json_equal(found, atom["value"])
        return equal if atom["op"] == "==" else not equal
    actual = _attribute(op, atom["attr"])
    if actual is None:
        return False  # no tags / no operationId: nothing to match
    values = actual if isinstance(actual, list) else [actual]
    if kind == "value":
        expected = atom["value"].upper() if atom["attr"] == "method" else atom["value"]
        return any(v == expected for v in values)
    if kind == "list":
        expected = [e.upper() for e in atom["value"]] if atom["attr"] == "method" else atom["value"]
        return any(v in expected for v in values)
    if kind == "regex":
        return any(re.search(atom["value"], v) is not None for v in values)
    raise KeyError(kind)


def _json_equal(a: Any, b: Any) -> bool:
    if isinstance(a, bool) != isinstance(b, bool):
        return False
    return a == b


def is_selected(atoms: list[dict], op: Op, *, raw_pointer: bool = False, conjoin_include_regex: bool = False) -> bool:
    """The property's predicate.

    The two keyword switches compute *alternative* readings that are used only to explain (label) an observed
    deviation, never to accept it.
    """
    includes = [a for a in atoms if a["pol"] == "include"]
    excludes = [a for a in atoms if a["pol"] == "exclude"]
    if any(atom_matches(a, op, raw_pointer=raw_pointer) for a in excludes):
        return False
    if not includes:
        return True
    if conjoin_include_regex:
        regexes = [a for a in includes if a["kind"] == "regex"]
        others = [a for a in includes if a["kind"] != "regex"]
        hit = any(atom_matches(a, op, raw_pointer=raw_pointer) for a in others)
        if regexes:
            hit = hit or all(atom_matches(a, op, raw_pointer=raw_pointer) for a in regexes)
        return hit
    return any(atom_matches(a, op, raw_pointer=raw_pointer) for a in includes)


@dataclass
class Reference:
    selected: list[str]  # labels of selected strict operations, document order
    total: int  # strict operations
    links_total: int
    transitions: list[tuple]  # (source label, status, link name, target label) with both ends selected
    open_labels: list[str]  # operations the text leaves open (upper-case method keys)


def reference(document: dict, atoms: list[dict], **reading: bool) -> Reference:
    ops = operations(document)
    strict = [op for op in ops if op.strict]
    chosen = [op.label for op in strict if is_selected(atoms, op, **reading)]
    chosen_set = set(chosen)
    links = [link for op in strict for link in op.links]
    transitions = sorted((l.source, l.status, l.name, l.target) for l in links if l.source in chosen_set and l.target in chosen_set)
    return Reference(selected=chosen, total=len(strict), links_total=len(links), transitions=transitions,
                     open_labels=[op.label for op in ops if not op.strict])


def pointer_goes_through_reference(document: dict, atoms: list[dict]) -> bool:
    """Fact for signatures: some expression atom reads a different value from the raw than from the resolved definition."""
    for atom in atoms:
        if atom["kind"] != "expr":
            continue
        for op in operations(document):
            if atom_matches(atom, op) != atom_matches(atom, op, raw_pointer=True):
                return True
    return False


# --------------------------------------------------------------------------------------------------------------------
# traffic


def route(document: dict, method: str, url_path: str) -> list[str]:
    """Labels of every operation (strict or open) whose path template can have produced this request line."""
    segments = url_path.split("/")
    out = []
    for op in operations(document):
        if op.method != method.upper():
            continue
        template = op.path.split("/")
        if len(template) != len(segments):
            continue
        if all(t == s or (t.startswith("{") and t.endswith("}")) for t, s in zip(template, segments)):
            out.append(op.label)
    return out
