#!/bin/sh
# Runs the repository's pinned suite with the verification guard OFF and compares with BASELINE.json
unset SCHEMATHESIS_VERIF
OUT=${1:-$(mktemp -d)/baseline.junit.xml}
cd /repo && /venv/bin/python -m pytest -ra -q -p no:cacheprovider --timeout=900 --continue-on-collection-errors --junitxml="$OUT" >"$OUT.log" 2>&1
/venv/bin/python /verif/bin/baseline_compare.py "$OUT"
