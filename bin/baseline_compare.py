import json, sys
import xml.etree.ElementTree as ET

base = json.load(open("/root/.vp/BASELINE.json"))
stable = set(base["stable_pass"])
root = ET.parse(sys.argv[1]).getroot()
passed = set()
failed = set()
for tc in root.iter("testcase"):
    name = f"{tc.get('classname', '')}::{tc.get('name', '')}"
    bad = any(ch.tag in ("failure", "error") for ch in tc)
    skipped = any(ch.tag == "skipped" for ch in tc)
    if bad:
        failed.add(name)
    elif not skipped:
        passed.add(name)
missing = sorted(stable - passed)
# parameter ids that embed the core count differ between machines
missing = [m for m in missing if "test_convert_workers[auto-" not in m]
print(f"passed={len(passed)} failed={len(failed)} stable={len(stable)} stable_not_passed={len(missing)}")
for m in missing[:50]:
    print("  MISSING", m)
sys.exit(1 if missing else 0)
