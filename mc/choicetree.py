"""E1 - choice-tree explorer.

Replaces Hypothesis' PRNG by an enumerator (a ``PrimitiveProvider``): every primitive draw of the *real*
strategy is a choice point with a finite ordered candidate list (simplest first).  Exploration is a
stateless depth-first search over choice-index prefixes, bounded by the number of *deviations*
(non-zero answers).  Nothing is sampled.
"""

from __future__ import annotations

import math
from dataclasses import dataclass, field
from typing import Any, Callable, Iterator

from hypothesis import strategies as st
from hypothesis.control import BuildContext
from hypothesis.errors import StopTest, UnsatisfiedAssumption
from hypothesis.internal.conjecture.data import ConjectureData, Status
from hypothesis.internal.conjecture.providers import PrimitiveProvider

DEFAULT_CHARS = ["a", "b", "0", "1", " ", "/", ",", "%", "\x00", "é", "€", "😀", "\ud800"]


class Overrun(Exception):
    """The execution exceeded the per-execution horizon of choice points."""


class Divergence(Exception):
    """Replaying a prefix met a different number of candidates: nondeterminism the explorer does not own."""


@dataclass
class Alphabet:
    chars: list[str] = field(default_factory=lambda: DEFAULT_CHARS[:4])
    max_extra_len: int = 2  # string length candidates: min .. min+max_extra_len
    small_range: int = 8  # integer ranges up to this size are enumerated completely
    minimal: bool = False  # two candidates per point at most (liveness passes)
    int_extras: tuple[int, ...] = ()
    horizon: int = 400

    def booleans(self, p: float) -> list[bool]:
        if p <= 0:
            return [False]
        if p >= 1:
            return [True]
        return [False, True]

    def integers(self, lo: int | None, hi: int | None, shrink_towards: int, weights: Any) -> list[int]:
        c = shrink_towards
        if lo is not None:
            c = max(c, lo)
        if hi is not None:
            c = min(c, hi)
        if lo is not None and hi is not None and hi - lo + 1 <= self.small_range:
            vals = sorted(range(lo, hi + 1), key=lambda v: (abs(v - c), v < c))
        else:
            vals = [c, c + 1, c - 1, c + 2, c - 2]
            if lo is not None:
                vals += [lo, lo + 1]
            if hi is not None:
                vals += [hi, hi - 1]
            vals += list(self.int_extras)
        out: list[int] = []
        for v in vals:
            if lo is not None and v < lo:
                continue
            if hi is not None and v > hi:
                continue
            if weights is not None and v in weights and weights[v] == 0:
                continue
            if v not in out:
                out.append(v)
        if self.minimal:
            out = out[:2]
        return out

    def floats(self, lo: float, hi: float, allow_nan: bool, snm: float) -> list[float]:
        vals = [0.0, 1.0, -1.0, 0.5, 1e16]
        if math.isfinite(lo):
            vals += [lo, math.nextafter(lo, math.inf)]
        if math.isfinite(hi):
            vals += [hi, math.nextafter(hi, -math.inf)]
        out: list[float] = []
        for v in vals:
            if not (lo <= v <= hi):
                continue
            if v != 0 and abs(v) < snm:
                continue
            if not any(v == o and math.copysign(1, v) == math.copysign(1, o) for o in out):
                out.append(v)
        if not out:
            # fall back to something inside the range
            v = lo if math.isfinite(lo) else hi
            out = [v]
        if self.minimal:
            out = out[:2]
        return out

    def lengths(self, lo: int, hi: int | None) -> list[int]:
        extra = 1 if self.minimal else self.max_extra_len
        vals = [lo + i for i in range(extra + 1)]
        if hi is not None and hi <= 4 and not self.minimal:
            vals.append(hi)
        out = []
        for v in vals:
            if hi is not None and v > hi:
                continue
            if v not in out:
                out.append(v)
        return out

    def characters(self, intervals: Any) -> list[str]:
        out = [c for c in self.chars if ord(c) in intervals]
        if not out:
            # the two smallest allowed code points
            n = len(intervals)
            out = [chr(intervals[i]) for i in range(min(2, n))]
        if self.minimal:
            out = out[:2]
        return out


class Script:
    """One execution: a prefix of forced answers, then answer 0; records every point."""

    def __init__(self, prefix: list[int], alphabet: Alphabet, expected: list[int] | None = None):
        self.prefix = prefix
        self.alphabet = alphabet
        self.expected = expected  # candidate counts recorded when the prefix was first run
        self.counts: list[int] = []
        self.choices: list[int] = []
        self.labels: list[str] = []

    def choose(self, label: str, candidates: list[Any]) -> Any:
        i = len(self.choices)
        if i >= self.alphabet.horizon:
            raise Overrun
        n = len(candidates)
        if n == 0:
            raise AssertionError(f"empty candidate list at {label}")
        if i < len(self.prefix):
            idx = self.prefix[i]
            if self.expected is not None and i < len(self.expected) and self.expected[i] != n:
                raise Divergence(f"point {i} ({label}): {n} candidates, expected {self.expected[i]}")
            if idx >= n:
                raise Divergence(f"point {i} ({label}): choice {idx} out of range {n}")
        else:
            idx = 0
        self.counts.append(n)
        self.choices.append(idx)
        self.labels.append(label)
        return candidates[idx]


class EnumProvider(PrimitiveProvider):
    lifetime = "test_case"

    def __init__(self, conjecturedata: Any, /, script: Script | None = None) -> None:
        super().__init__(conjecturedata)
        assert script is not None
        self.script = script
        self.alphabet = script.alphabet

    def draw_boolean(self, p: float = 0.5) -> bool:
        return self.script.choose("bool", self.alphabet.booleans(p))

    def draw_integer(self, min_value=None, max_value=None, *, weights=None, shrink_towards=0) -> int:
        return self.script.choose("int", self.alphabet.integers(min_value, max_value, shrink_towards, weights))

    def draw_float(self, *, min_value=-math.inf, max_value=math.inf, allow_nan=True, smallest_nonzero_magnitude) -> float:
        return self.script.choose(
            "float", self.alphabet.floats(min_value, max_value, allow_nan, smallest_nonzero_magnitude)
        )

    def draw_string(self, intervals, *, min_size=0, max_size=10**10) -> str:
        if len(intervals) == 0:
            return ""
        hi = None if max_size >= 10**9 else max_size
        n = self.script.choose("strlen", self.alphabet.lengths(min_size, hi))
        chars = self.alphabet.characters(intervals)
        return "".join(self.script.choose("char", chars) for _ in range(n))

    def draw_bytes(self, min_size=0, max_size=10**10) -> bytes:
        hi = None if max_size >= 10**9 else max_size
        lens = self.alphabet.lengths(min_size, hi)[:2]
        n = self.script.choose("byteslen", lens)
        cands = [b"\x00", b"a", b"\xff"]
        if self.alphabet.minimal:
            cands = cands[:2]
        return b"".join(self.script.choose("byte", cands) for _ in range(n))


@dataclass
class Execution:
    choices: list[int]
    counts: list[int]
    status: str  # "valid" | "rejected" | "overrun" | "error"
    value: Any = None
    error: BaseException | None = None

    @property
    def deviations(self) -> int:
        return sum(1 for c in self.choices if c)


@dataclass
class Stats:
    executions: int = 0
    valid: int = 0
    rejected: int = 0
    overrun: int = 0
    errors: int = 0
    nodes: int = 0  # distinct tree nodes visited (= states)
    edges: int = 0  # choices taken (= transitions)
    exhausted: bool = True  # no unexplored sibling remained
    capped: bool = False

    def merge(self, other: "Stats") -> None:
        self.executions += other.executions
        self.valid += other.valid
        self.rejected += other.rejected
        self.overrun += other.overrun
        self.errors += other.errors
        self.nodes += other.nodes
        self.edges += other.edges
        self.exhausted = self.exhausted and other.exhausted
        self.capped = self.capped or other.capped


def _wrapped_test() -> None:  # placeholder required by BuildContext
    pass


def run_once(body: Callable[[Callable[[Any], Any]], Any], script: Script) -> Execution:
    """Run ``body(draw)`` once on a fresh ConjectureData driven by ``script``."""
    data = ConjectureData(random=None, provider=EnumProvider, provider_kw={"script": script})
    status = "valid"
    value = None
    error: BaseException | None = None
    try:
        with BuildContext(data, wrapped_test=_wrapped_test):
            value = body(data.draw)
    except (StopTest, UnsatisfiedAssumption):
        status = "rejected"
    except Overrun:
        status = "overrun"
    except Divergence:
        raise
    except Exception as exc:  # noqa: BLE001 - reported to the caller as an outcome
        status = "error"
        error = exc
    finally:
        if not data.frozen:
            try:
                data.freeze()
            except Exception:  # noqa: BLE001
                pass
    if status == "valid" and data.status == Status.INVALID:
        status = "rejected"
    return Execution(choices=list(script.choices), counts=list(script.counts), status=status, value=value, error=error)


def explore(
    body: Callable[[Callable[[Any], Any]], Any],
    alphabet: Alphabet,
    max_deviations: int | None,
    max_executions: int | None = None,
    stats: Stats | None = None,
) -> Iterator[Execution]:
    """Enumerate every execution of ``body`` with at most ``max_deviations`` non-default answers.

    ``max_deviations=None`` explores the whole tree.  ``stats.exhausted`` stays True only if no sibling was
    left unexplored (neither by the deviation bound nor by ``max_executions``).
    """
    if stats is None:
        stats = Stats()
    stack: list[tuple[list[int], list[int]]] = [([], [])]
    first = True
    while stack:
        if max_executions is not None and stats.executions >= max_executions:
            stats.exhausted = False
            stats.capped = True
            return
        prefix, expected = stack.pop()
        script = Script(prefix, alphabet, expected)
        ex = run_once(body, script)
        if len(ex.choices) < len(prefix):
            raise Divergence(f"execution ended after {len(ex.choices)} points while replaying a prefix of {len(prefix)}")
        stats.executions += 1
        setattr(stats, {"valid": "valid", "rejected": "rejected", "overrun": "overrun", "error": "errors"}[ex.status],
                getattr(stats, {"valid": "valid", "rejected": "rejected", "overrun": "overrun", "error": "errors"}[ex.status]) + 1)
        new_points = len(ex.choices) - len(prefix)
        stats.nodes += new_points + (1 if first else 0)
        stats.edges += new_points
        first = False
        if ex.status == "overrun":
            stats.exhausted = False
        yield ex
        # branch on every point after the prefix (siblings of the default answer)
        devs = sum(1 for c in ex.choices[: len(prefix)] if c)
        pending: list[tuple[list[int], list[int]]] = []
        for i in range(len(prefix), len(ex.choices)):
            n = ex.counts[i]
            if n > 1:
                if max_deviations is not None and devs + 1 > max_deviations:
                    stats.exhausted = False
                else:
                    for alt in range(1, n):
                        pending.append((ex.choices[:i] + [alt], ex.counts[: i + 1]))
            if ex.choices[i]:
                devs += 1
        # depth-first, simplest alternative first
        stack.extend(reversed(pending))


def replay(body: Callable[[Callable[[Any], Any]], Any], alphabet: Alphabet, choices: list[int]) -> Execution:
    return run_once(body, Script(list(choices), alphabet))


def draw_strategy(strategy: st.SearchStrategy) -> Callable[[Callable[[Any], Any]], Any]:
    return lambda draw: draw(strategy)
