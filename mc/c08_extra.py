"""E2 for C08, review round 2: document shapes the first grammar (mc/c08docs.py) does not write.

Two parts, both driven by a JSON-able ``spec`` so that a work item replays from its JSON form:

* ``build(spec)``: ``docs.build`` followed by the document *rewrites* named in ``spec["extra"]`` (each rewrite keeps the
  meaning of the document as the OpenAPI text defines it, or changes it in a way the reference merge reads from the
  rewritten raw dicts - the oracle never looks at the spec, only at the files);
* ``build20(spec)`` / ``reference20(files)``: a Swagger 2.0 grammar (``in: body`` / ``in: formData`` parameters at path and
  operation level, ``consumes`` inheritance, ``securityDefinitions``) and its reference merge, written from the
  OpenAPI 2.0 text.  ``reference20`` imports nothing from schemathesis; it reuses the RFC 6901 walker of oracles/merge.py.
"""

from __future__ import annotations

import copy
import posixpath
from typing import Any, Iterator
from urllib.parse import quote

from mc import c08docs as docs
from oracles import merge

PARAM_IN = ("path", "query", "header", "cookie", "body", "formData")


# ---------------------------------------------------------------------------------------------------------------
# walking helpers (raw dicts only)


def _is_parameter(node: Any) -> bool:
    return isinstance(node, dict) and isinstance(node.get("name"), str) and node.get("in") in PARAM_IN and node.get("type") != "apiKey"


def _walk(node: Any) -> Iterator[Any]:
    yield node
    if isinstance(node, dict):
        for v in node.values():
            yield from _walk(v)
    elif isinstance(node, list):
        for v in node:
            yield from _walk(v)


def _path_items(root_name: str, files: dict[str, dict]) -> Iterator[tuple[str, dict]]:
    """(path, the dict that holds the methods) for every readable path item, references followed by the own walker."""
    walker = DirFiles(root_name, files)
    for path, raw in files[root_name].get("paths", {}).items():
        try:
            _, item = walker.deref(root_name, raw)
        except merge.Dangling:
            continue
        if isinstance(item, dict):
            yield path, item


def _operations(item: dict) -> Iterator[tuple[str, dict]]:
    for method, operation in item.items():
        if method in merge.HTTP_METHODS and isinstance(operation, dict):
            yield method, operation


def _reorder(mapping: dict, last: str) -> None:
    if last in mapping:
        mapping[last] = mapping.pop(last)


# ---------------------------------------------------------------------------------------------------------------
# rewrites


def t_omit_required(root_name: str, files: dict[str, dict]) -> None:
    """``required: false`` is the default: leave it out (the writing with the neutral value is the first grammar's)."""
    for doc in files.values():
        for node in _walk(doc):
            if _is_parameter(node) and node.get("required") is False:
                del node["required"]


def t_noise(root_name: str, files: dict[str, dict]) -> None:
    """Fixed fields and extensions that sit NEXT TO the methods / the parameter keywords and define no operation."""
    for doc in files.values():
        for node in _walk(doc):
            if _is_parameter(node):
                node["description"] = "d"
                if "schema" in node and node["in"] != "body":
                    node["deprecated"] = False
    first_id = None
    for _, item in _path_items(root_name, files):
        for _, operation in _operations(item):
            first_id = first_id or operation.get("operationId")
            operation["summary"] = "s"
            operation["tags"] = []
            operation["deprecated"] = False
    for _, item in _path_items(root_name, files):
        methods = {k: item.pop(k) for k in list(item) if k in merge.HTTP_METHODS}
        item["summary"] = "s"
        item["description"] = "get post put"
        if "openapi" in files[root_name]:
            item["servers"] = [{"url": "/v2"}]
        item["x-first"] = "get"
        item.update(methods)
        # an extension may hold anything - here something that looks like an operation and repeats a documented id
        item["x-note"] = {"operationId": first_id, "parameters": [], "responses": {}}


def t_params_last(root_name: str, files: dict[str, dict]) -> None:
    """``parameters`` written after the methods (path item) and after ``responses`` (operation)."""
    for _, item in _path_items(root_name, files):
        for _, operation in _operations(item):
            _reorder(operation, "parameters")
            _reorder(operation, "operationId")
        _reorder(item, "parameters")


def t_reversed(root_name: str, files: dict[str, dict]) -> None:
    """The other writing order of every parameter list, of the methods of a path item and of the media types."""
    for _, item in _path_items(root_name, files):
        if isinstance(item.get("parameters"), list):
            item["parameters"].reverse()
        for _, operation in _operations(item):
            if isinstance(operation.get("parameters"), list):
                operation["parameters"].reverse()
            if isinstance(operation.get("consumes"), list):
                operation["consumes"].reverse()
        for method in [m for m in item if m in merge.HTTP_METHODS][::-1]:
            item[method] = item.pop(method)
    for doc in files.values():
        for node in _walk(doc):
            if isinstance(node, dict) and isinstance(node.get("content"), dict) and len(node["content"]) > 1:
                node["content"] = dict(reversed(list(node["content"].items())))


def t_partial_ids(root_name: str, files: dict[str, dict]) -> None:
    """Only the LAST documented operation keeps its operationId (the field is optional)."""
    operations = [op for _, item in _path_items(root_name, files) for _, op in _operations(item)]
    for operation in operations[:-1]:
        operation.pop("operationId", None)


def t_sec_ref(root_name: str, files: dict[str, dict]) -> None:
    """Every security scheme behind a local ``$ref`` (Components Object: 'Security Scheme Object | Reference Object')."""
    components = files[root_name].get("components", {})
    schemes = components.get("securitySchemes")
    if not schemes:
        return
    store = components.setdefault("x-sec", {})
    for name in list(schemes):
        store[name] = schemes[name]
        schemes[name] = {"$ref": f"#/components/x-sec/{name}"}
    # a sibling file that holds something else under the very same pointer
    for fname, doc in files.items():
        if fname != root_name:
            doc.setdefault("components", {}).setdefault("x-sec", {}).update(
                {name: {"type": "apiKey", "in": "query", "name": "decoy"} for name in schemes})


def t_chain(root_name: str, files: dict[str, dict], mode: str = "root") -> None:
    """A path item ``$ref`` whose target is again a path item that consists of a ``$ref`` (chain of two)."""
    root = files[root_name]
    for n, (path, raw) in enumerate(list(root.get("paths", {}).items())):
        if not (isinstance(raw, dict) and isinstance(raw.get("$ref"), str)):
            continue
        target_file, _, fragment = raw["$ref"].partition("#")
        if mode == "far" and target_file:
            files[target_file].setdefault("x-chain", {})[f"P{n}"] = {"$ref": "#" + fragment}
            root["paths"][path] = {"$ref": f"{target_file}#/x-chain/P{n}"}
        else:
            root.setdefault("x-chain", {})[f"P{n}"] = {"$ref": raw["$ref"]}
            root["paths"][path] = {"$ref": f"#/x-chain/P{n}"}


def _rewrite_refs(node: Any, prefixes: tuple[str, ...], target: str) -> None:
    for sub in _walk(node):
        if isinstance(sub, dict) and isinstance(sub.get("$ref"), str) and sub["$ref"].startswith(prefixes):
            sub["$ref"] = target + sub["$ref"]


def _decoyed(moved: dict) -> dict:
    """The same pointers holding OTHER definitions (what a wrongly resolved file reference would find)."""
    decoy = copy.deepcopy(moved)
    for node in _walk(decoy):
        if _is_parameter(node):
            if isinstance(node.get("schema"), dict) and "$ref" not in node["schema"]:
                node["schema"] = {"type": "boolean"}
            if node["in"] != "path":
                node["required"] = not node.get("required", False)
        elif isinstance(node, dict) and isinstance(node.get("properties"), dict) and "v" in node["properties"]:
            node["properties"]["v"] = {"type": "string"}
    return decoy


def t_externalise(root_name: str, files: dict[str, dict], source: str = "sibling", nest: bool = False, subdir: bool = False) -> None:
    """Move the components of one file into a NEW file (``shared.<ext>``); references from the source file become
    relative file references, references inside the moved components stay fragment-only (now local to the new file).

    ``source='sibling'``: three files (root -> path items file -> components file).
    ``source='root'``: inline path items whose parameters / bodies live in the other file.
    ``nest``: every moved parameter gets its schema behind a reference local to the new file, while the source file
    keeps something else under that very pointer.
    ``subdir`` (source='sibling'): the path items file and the new file live in ``sub/``; the path items file refers to
    ``shared.<ext>`` - relative to ITSELF (RFC 3986 section 5), i.e. ``sub/shared.<ext>`` - while the root's directory
    holds another ``shared.<ext>`` with other definitions under the same pointers.
    """
    ext = root_name.rsplit(".", 1)[1]
    new_name = f"shared.{ext}"
    if source == "root":
        src_name = root_name
    else:
        src_name = next((n for n in files if n != root_name), None)
        if src_name is None:
            return
    src = files[src_name]
    moved: dict[str, Any] = {}
    prefixes: list[str] = []
    for top in ("components", "defs"):
        holder = src.get(top)
        if not isinstance(holder, dict):
            continue
        for kind in ("parameters", "schemas", "requestBodies"):
            if kind in holder:
                moved.setdefault(top, {})[kind] = holder.pop(kind)
                prefixes.append(f"#/{top}/{kind}/")
        if not holder:
            del src[top]
    if not moved:
        return
    _rewrite_refs(src, tuple(prefixes), new_name)
    if nest:
        for top, holder in moved.items():
            for key, definition in list(holder.get("parameters", {}).items()):
                if _is_parameter(definition) and isinstance(definition.get("schema"), dict) and "$ref" not in definition["schema"]:
                    holder.setdefault("schemas", {})[f"{key}_schema"] = definition["schema"]
                    definition["schema"] = {"$ref": f"#/{top}/schemas/{key}_schema"}
                    src.setdefault(top, {}).setdefault("schemas", {})[f"{key}_schema"] = {"type": "boolean"}
    if subdir and source != "root":
        files[f"sub/{new_name}"] = moved
        files[new_name] = _decoyed(moved)
        files[f"sub/{src_name}"] = files.pop(src_name)
        for sub in _walk(files[root_name]):
            if isinstance(sub, dict) and isinstance(sub.get("$ref"), str) and sub["$ref"].startswith(src_name + "#"):
                sub["$ref"] = "sub/" + sub["$ref"]
    else:
        files[new_name] = moved


def t_op_security(root_name: str, files: dict[str, dict], path: str, method: str, value: Any) -> None:
    for p, item in _path_items(root_name, files):
        if p == path and method in item:
            item[method]["security"] = copy.deepcopy(value)


def t_root_security(root_name: str, files: dict[str, dict], value: Any) -> None:
    files[root_name]["security"] = copy.deepcopy(value)


def t_rename_path(root_name: str, files: dict[str, dict], old: str, new: str) -> None:
    paths = files[root_name]["paths"]
    files[root_name]["paths"] = {(new if p == old else p): v for p, v in paths.items()}


def t_version(root_name: str, files: dict[str, dict], version: str) -> None:
    files[root_name]["openapi"] = version


TRANSFORMS = {
    "omit_required": t_omit_required, "noise": t_noise, "params_last": t_params_last, "reversed": t_reversed,
    "partial_ids": t_partial_ids, "sec_ref": t_sec_ref, "chain": t_chain, "externalise": t_externalise,
    "op_security": t_op_security, "root_security": t_root_security, "rename_path": t_rename_path, "version": t_version,
}


def build(spec: dict) -> tuple[str, dict[str, dict]]:
    spec = copy.deepcopy(spec)
    extra = spec.pop("extra", [])
    if spec.get("swagger"):
        root_name, files = build20(spec)
    else:
        root_name, files = docs.build(spec)
    for step in extra:
        TRANSFORMS[step[0]](root_name, files, *step[1:])
    return root_name, files


class DirFiles(merge.Files):
    """merge.Files with file names that may contain directories: a relative file reference is resolved against the
    location of the file it is written in (RFC 3986 section 5.2), not against the root document."""

    def resolve(self, file: str, ref: Any) -> tuple[str, Any]:
        if not isinstance(ref, str):
            raise merge.Dangling(f"non-string $ref {ref!r}")
        target, _, fragment = ref.partition("#")
        target_file = posixpath.normpath(posixpath.join(posixpath.dirname(file), target)) if target else file
        return target_file, self.pointer(target_file, fragment)


def chain_lengths(root_name: str, files: dict[str, dict]) -> dict[str, int]:
    """Number of references between ``paths[p]`` and the object that holds the methods."""
    walker = DirFiles(root_name, files)
    out = {}
    for path, node in files[root_name].get("paths", {}).items():
        hops, file = 0, root_name
        try:
            while isinstance(node, dict) and "$ref" in node and hops < 16:
                file, node = walker.resolve(file, node["$ref"])
                hops += 1
        except merge.Dangling:
            pass
        out[path] = hops
    return out


def pointer_of(path: str) -> str:
    """RFC 6901 section 3: '~' -> '~0' first, then '/' -> '~1'."""
    return path.replace("~", "~0").replace("/", "~1")


def percent_encoded(pointer: str) -> str:
    """RFC 6901 section 6 (URI fragment identifier representation): characters outside the fragment rule are percent-encoded."""
    return quote(pointer, safe="~/!$&'()*+,;=:@-._")


# ---------------------------------------------------------------------------------------------------------------
# Swagger 2.0 grammar

FLAT_BODY = {"type": "object", "properties": {"v": {"type": "integer"}}, "required": ["v"]}

P20 = {
    "q": {"name": "q", "in": "query", "required": True, "type": "string"},
    "q!": {"name": "q", "in": "query", "type": "integer"},
    "id": {"name": "id", "in": "path", "required": True, "type": "string"},
    "h": {"name": "h", "in": "header", "required": True, "type": "string"},
    "h!": {"name": "h", "in": "header", "required": False, "type": "integer"},
    "B": {"name": "payload", "in": "body", "required": True, "schema": FLAT_BODY},
    "B!": {"name": "payload", "in": "body", "schema": {"type": "integer"}},
    "Bd": {"name": "payload", "in": "body", "required": True, "schema": {"$ref": "#/definitions/Node"}},
    "f": {"name": "f", "in": "formData", "required": True, "type": "string"},
    "g": {"name": "g", "in": "formData", "required": False, "type": "integer"},
    "f!": {"name": "f", "in": "formData", "type": "integer"},
    "f@q": {"name": "f", "in": "query", "required": False, "type": "integer"},
    "payload@q": {"name": "payload", "in": "query", "required": False, "type": "integer"},
}

SECURITY20 = {
    "none": None,
    "basic_key": {"definitions": {"k": {"type": "apiKey", "in": "header", "name": "X-Key"}, "b": {"type": "basic"},
                                  "u": {"type": "apiKey", "in": "query", "name": "token"}},
                  "global": [{"k": [], "b": []}]},
    "collide": {"definitions": {"k": {"type": "apiKey", "in": "query", "name": "q"}, "b": {"type": "basic"}},
                "global": [{"k": [], "b": []}]},
}


def build20(spec: dict) -> tuple[str, dict[str, dict]]:
    ext = spec.get("ext", "json")
    root_name = f"root.{ext}"
    root: dict[str, Any] = {"swagger": "2.0", "info": {"title": "t", "version": "1.0.0"}}
    if spec.get("consumes") is not None:
        root["consumes"] = list(spec["consumes"])
    root["paths"] = {}
    sec = SECURITY20[spec.get("security", "none")]
    if sec is not None:
        root["securityDefinitions"] = copy.deepcopy(sec["definitions"])
        root["security"] = copy.deepcopy(sec["global"])

    def entry(item: str, code: str, depth: int) -> dict:
        definition = copy.deepcopy(P20[code])
        if code == "Bd":
            root.setdefault("definitions", {})["Node"] = {
                "type": "object", "properties": {"child": {"$ref": "#/definitions/Node"}, "v": {"type": "integer"}}, "required": ["v"]}
        if depth == 0:
            return definition
        key = docs.key_of(item, code)
        root.setdefault("parameters", {})[key] = definition
        return {"$ref": f"#/parameters/{key}"}

    for it in spec["items"]:
        name, path = it["name"], it["path"]
        item: dict[str, Any] = {}
        shared = [entry(name, c, it.get("shared_ref", 0)) for c in it.get("shared", [])]
        if shared:
            item["parameters"] = shared
        for op in it["ops"]:
            definition: dict[str, Any] = {"operationId": f"{op['method']}{name}"}
            if op.get("consumes") is not None:
                definition["consumes"] = list(op["consumes"])
            own = [entry(name, c, op.get("own_ref", 0)) for c in op.get("own", [])]
            if own:
                definition["parameters"] = own
            if op.get("security") == "optout":
                definition["security"] = []
            elif op.get("security") == "own":
                definition["security"] = [{"u": []}]
            definition["responses"] = {"200": {"description": "ok"}}
            item[op["method"]] = definition
        if it.get("place", "inline") == "same":
            root.setdefault("x-items", {})[name] = item
            root["paths"][path] = {"$ref": f"#/x-items/{name}"}
        else:
            root["paths"][path] = item
    return root_name, {root_name: root}


# ---------------------------------------------------------------------------------------------------------------
# Swagger 2.0 reference merge (from the OpenAPI 2.0 text; entries have the format of merge.reference)
#
# * Path Item Object / parameters: "These parameters can be overridden at the operation level, but cannot be removed
#   there. ... A unique parameter is defined by a combination of a name and location."
# * Parameter Object: in = query | header | path | formData | body; body carries ``schema``, the others ``type``;
#   ``required`` defaults to false.
# * Operation Object / consumes: "This overrides the consumes definition at the Swagger Object. An empty value MAY be
#   used to clear the global definition."  -> absent: the global list; non-empty: that list; the media types of a
#   payload when no list applies are not fixed by the text (``body_open``: any media type, but the payload itself is).
# * Operation Object / security: "This definition overrides any declared top-level security. To remove a top-level
#   security declaration, an empty array can be used."  basic -> header Authorization, apiKey -> (name, in).

METHODS20 = ("get", "put", "post", "delete", "options", "head", "patch")
_SCHEMA_KEYS20 = ("type", "format", "enum", "items", "minimum", "maximum", "minLength", "maxLength", "pattern", "default")


def _parameter20(files: merge.Files, file: str, entry: Any) -> dict:
    try:
        pfile, definition = files.deref(file, entry)
    except merge.Dangling as exc:
        raise merge.Malformed(f"dangling_ref: {exc}") from None
    if not isinstance(definition, dict):
        raise merge.Malformed("parameter_not_object")
    if "in" not in definition:
        raise merge.Malformed("parameter_without_in")
    if "name" not in definition:
        raise merge.Malformed("parameter_without_name")
    location = definition["in"]
    if location not in ("path", "query", "header", "formData", "body"):
        raise merge.Malformed("parameter_unknown_location")
    if location == "body":
        if not isinstance(definition.get("schema"), dict):
            raise merge.Malformed("body_without_schema")
        schema = definition["schema"]
    else:
        if not isinstance(definition.get("type"), str):
            raise merge.Malformed("parameter_without_type")
        schema = {k: definition[k] for k in _SCHEMA_KEYS20 if k in definition}
    return {"name": definition["name"], "in": location, "required": bool(definition.get("required", False)),
            "schema": schema, "file": pfile}


def _security20(root: dict, operation: dict, declared: set[tuple[str, str]]) -> list[dict]:
    requirements = operation["security"] if "security" in operation else root.get("security", [])
    active = [name for requirement in requirements or [] for name in requirement]
    out: list[dict] = []
    for name, scheme in root.get("securityDefinitions", {}).items():
        if name not in active:
            continue
        if scheme.get("type") == "apiKey":
            key = (scheme["name"], scheme["in"])
        elif scheme.get("type") == "basic":
            key = ("Authorization", "header")
        else:
            continue
        if key in declared or any((p["name"], p["in"]) == key for p in out):
            continue
        out.append({"name": key[0], "in": key[1], "required": True, "schema": None, "file": None, "security": True})
    return out


def reference20(files: merge.Files) -> list[dict]:
    root = files.root
    out: list[dict] = []
    for path, raw_item in root.get("paths", {}).items():
        behind = "same_file" if isinstance(raw_item, dict) and "$ref" in raw_item else None
        try:
            item_file, item = files.deref(files.root_name, raw_item)
            if not isinstance(item, dict):
                raise merge.Dangling("path item is not an object")
        except merge.Dangling as exc:
            out.append({"path": path, "method": None, "status": "malformed", "reason": f"dangling_ref: {exc}",
                        "path_item_ref": behind, "whole_path": True})
            continue
        shared_error = None
        shared: list[dict] = []
        try:
            shared = [_parameter20(files, item_file, e) for e in item.get("parameters", [])]
        except merge.Malformed as exc:
            shared_error = str(exc)
        for method, operation in item.items():
            if method not in METHODS20:
                continue
            entry: dict[str, Any] = {"path": path, "method": method, "path_item_ref": behind, "file": item_file,
                                     "operation_id": operation.get("operationId") if isinstance(operation, dict) else None,
                                     "whole_path": False}
            try:
                if shared_error is not None:
                    raise merge.Malformed(shared_error)
                if not isinstance(operation, dict):
                    raise merge.Malformed("operation_not_object")
                own = [_parameter20(files, item_file, e) for e in operation.get("parameters", [])]
                effective: dict[tuple[str, str], dict] = {}
                overridden: dict[tuple[str, str], dict] = {}
                for p in shared:
                    effective[(p["name"], p["in"])] = {**p, "level": "path"}
                for p in own:
                    key = (p["name"], p["in"])
                    if key in effective and effective[key]["level"] == "path":
                        overridden[key] = effective[key]
                    effective[key] = {**p, "level": "operation"}
                plain = [p for p in effective.values() if p["in"] in ("path", "query", "header")]
                bodies = [p for p in effective.values() if p["in"] == "body"]
                forms = [p for p in effective.values() if p["in"] == "formData"]
                if len(bodies) > 1 or (bodies and forms):
                    raise merge.Malformed("more_than_one_payload")  # "there can be only one body parameter"; body xor formData
                template = None
                if bodies:
                    template = {"required": bodies[0]["required"], "schema": bodies[0]["schema"], "file": bodies[0]["file"]}
                elif forms:
                    template = {"required": any(p["required"] for p in forms), "file": item_file,
                                "schema": {"properties": {p["name"]: p["schema"] for p in forms},
                                           "required": sorted(p["name"] for p in forms if p["required"])}}
                consumes = operation["consumes"] if "consumes" in operation else root.get("consumes")
                body_open = template is not None and not consumes
                body = {media_type: dict(template) for media_type in consumes} if template is not None and consumes else {}
                declared = {(p["name"], p["in"]) for p in plain}
                entry.update(status="ok", params=plain + _security20(root, operation, declared), body=body,
                             body_open=body_open, body_template=template,
                             overridden=[v for v in overridden.values() if v["in"] in ("path", "query", "header")],
                             payload_overridden=any(v["in"] in ("body", "formData") for v in overridden.values()),
                             payload_kind="body" if bodies else ("form" if forms else None),
                             uses_refs_local_to_sibling=False)
            except merge.Malformed as exc:
                entry.update(status="malformed", reason=str(exc))
            out.append(entry)
    return out


def bind_open_media_types(entry: dict, observed_media_types: list[str]) -> dict:
    """Where the text fixes the payload but not its media type, the payload is expected under whatever media types the
    implementation chose (at least one)."""
    if entry.get("status") != "ok" or not entry.get("body_open"):
        return entry
    media_types = sorted(set(observed_media_types)) or ["<any media type>"]
    return {**entry, "body": {m: dict(entry["body_template"]) for m in media_types}}
