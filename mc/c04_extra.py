"""Review round 2 enumerators for C04 (family X of props/c04.py).

Family X widens the grammar of props/c04.py along dimensions the property quantifies over and families S / R do not enumerate.  Each
dimension has its own small alphabet of documents and its own alphabet of responses (the full product of families S / R times every
new value would not fit the quick budget):

* ``schema``  - one step deeper schemas: ``nullable`` on a nested property (inline and behind two ``$ref``s), ``writeOnly`` on a property
  of a nested object, the keywords written out with their neutral value (``nullable: false``, ``readOnly: false``, ``writeOnly: false``,
  ``additionalProperties: true``); bodies ``{}``, ``[]``, valid JSON surrounded by white space;
* ``media``   - other spellings of documented media types (with parameters, upper case, ``application/*``, ``*/*`` next to an exact one
  in both orders, a first media type without schema, a media type object without ``schema``, ``content: {}``) and of the received
  Content-Type (no space before the parameter, quoted parameter, undocumented ``+json`` suffix, upper-case ``+JSON``, ``text/plain``
  with a parameter, the empty string);
* ``headers`` - two documented headers (both orders, one or both required), a documented lower-case name, ``required: false`` written out,
  ``headers: {}``, an optional header behind ``$ref``, the ``content`` form of a Header Object, other header schemas (number, boolean,
  enum, minimum); header values: the empty string; received header names in another letter case;
* ``entry``   - the response built by ``Response.from_requests`` from a ``requests.Response`` (what ``Case.call`` does) with lower-case
  header names on the wire, instead of the ``Response`` constructor.

Everything here is data; the documents are built by props/c04.py ``build`` and judged by oracles/responses.py.
"""

from __future__ import annotations

import io
import json
from typing import Any

REQUIRED_INT = {"type": "object", "properties": {"id": {"type": "integer"}}, "required": ["id"]}
B_SCHEMA = {"type": "object", "properties": {"name": {"type": "string"}}, "required": ["name"]}

SCHEMA_FAMILIES = ["nullable_nested", "ref_nullable", "write_only_nested", "neutral_keywords"]


def _nullable_string(spec: str) -> dict:
    if spec == "3.1":
        return {"type": ["string", "null"]}
    return {"type": "string", ("x-nullable" if spec == "2.0" else "nullable"): True}


def schema_a(family: str, spec: str, prefix: str) -> tuple[Any, dict]:
    if family == "nullable_nested":
        return {"type": "object", "properties": {"id": {"type": "integer"}, "v": _nullable_string(spec)}, "required": ["id", "v"]}, {}
    if family == "ref_nullable":
        return {"$ref": prefix + "NA"}, {
            "NA": {"type": "object", "properties": {"id": {"type": "integer"}, "v": {"$ref": prefix + "NS"}}, "required": ["id", "v"]},
            "NS": _nullable_string(spec),
        }
    if family == "write_only_nested":
        user = {"type": "object", "properties": {"name": {"type": "string"}, "pw": {"type": "string", "writeOnly": True}},
                "required": ["name", "pw"]}
        return {"type": "object", "properties": {"id": {"type": "integer"}, "user": user}, "required": ["id", "user"]}, {}
    if family == "neutral_keywords":
        prop: dict[str, Any] = {"type": "integer", "readOnly": False}
        out: dict[str, Any] = {"type": "object", "properties": {"id": prop}, "required": ["id"], "additionalProperties": True}
        if spec == "2.0":
            prop["x-nullable"] = False
            out["x-nullable"] = False
        else:
            prop["writeOnly"] = False
            if spec == "3.0":
                prop["nullable"] = False
                out["nullable"] = False
        return out, {}
    raise ValueError(family)


def family_bodies(family: str) -> list[tuple[str, Any]] | None:
    """[(label, JSON value)] for the families of this module: 'valid_A*' conform to A, 'invalid_A*' violate it."""
    if family in ("nullable_nested", "ref_nullable"):
        return [("valid_A", {"id": 1, "v": None}), ("invalid_A", {"id": 1, "v": 2}), ("valid_A_string", {"id": 1, "v": "s"}),
                ("invalid_A_missing", {"id": 1})]
    if family == "write_only_nested":
        return [("valid_A", {"id": 1, "user": {"name": "n"}}), ("invalid_A", {"id": 1, "user": {"name": 1}}),
                ("write_only_present", {"id": 1, "user": {"name": "n", "pw": "s"}})]
    if family == "neutral_keywords":
        return [("valid_A", {"id": 1}), ("invalid_A", {"id": "x"}), ("valid_A_additional", {"id": 1, "extra": True}),
                ("invalid_A_null_property", {"id": None})]
    return None


def extra_bodies(valid: bytes) -> list[tuple[str, bytes]]:
    """Bodies added by the 'schema' dimension to every family."""
    return [("empty_object", b"{}"), ("empty_array", b"[]"), ("valid_A_padded", b" \n" + valid + b"\r\n")]


# -- documented media types ---------------------------------------------------------------------------------------------------

CONTENT_VARIANTS = ["json_params_key", "json_upper_key", "app_wildcard", "any_json", "json_any", "plain_json", "json_noschema",
                    "empty_content", "any_appwild", "appwild_any", "any_appwild_json"]
PRODUCES = {
    "json_params": ["application/json; charset=utf-8"], "json_upper": ["Application/JSON"], "app_wildcard": ["application/*"],
    "any": ["*/*"], "empty": [],
}


def content_object(variant: str, a: Any) -> dict | None:
    b = json.loads(json.dumps(B_SCHEMA))
    if variant == "json_params_key":
        return {"application/json; charset=utf-8": {"schema": a}}
    if variant == "json_upper_key":
        return {"Application/JSON": {"schema": a}}
    if variant == "app_wildcard":
        return {"application/*": {"schema": a}}
    if variant == "any_json":
        return {"*/*": {"schema": b}, "application/json": {"schema": a}}
    if variant == "json_any":
        return {"application/json": {"schema": a}, "*/*": {"schema": b}}
    if variant == "any_appwild":  # two wildcards of different specificity, both writing orders; no exact entry
        return {"*/*": {"schema": b}, "application/*": {"schema": a}}
    if variant == "appwild_any":
        return {"application/*": {"schema": a}, "*/*": {"schema": b}}
    if variant == "any_appwild_json":  # all three levels of specificity, least specific first
        return {"*/*": {"schema": b}, "application/*": {"schema": b}, "application/json": {"schema": a}}
    if variant == "plain_json":
        return {"text/plain": {}, "application/json": {"schema": a}}
    if variant == "json_noschema":
        return {"application/json": {}}
    if variant == "empty_content":
        return {}
    raise ValueError(variant)


MEDIA_CONTENT_TYPES = [
    ["json_params_nospace", "application/json;charset=UTF-8"],
    ["json_quoted_param", 'application/json; profile="a;b/c"'],
    ["vendor_json", "application/vnd.api+json"],
    ["problem_json_uppercase", "APPLICATION/PROBLEM+JSON"],
    ["plain_params", "text/plain; charset=utf-8"],
    ["xml_uppercase", "Application/XML"],
    ["empty_string", ""],
]

# -- documented headers --------------------------------------------------------------------------------------------------------

HEADER_VARIANTS_3 = ["lower_name", "two", "two_rev", "both_required", "number", "boolean", "enum_string", "int_minimum", "required_false",
                     "content_form", "empty_headers", "ref_optional"]
HEADER_VARIANTS_2 = ["lower_name", "two", "two_rev", "number", "boolean", "enum_string", "int_minimum", "empty_headers"]
_HEADER_SCHEMAS = {
    "number": {"type": "number"}, "boolean": {"type": "boolean"}, "enum_string": {"type": "string", "enum": ["a", "b"]},
    "int_minimum": {"type": "integer", "minimum": 1},
}
# the values a received header takes per variant: [class, value]; "valid*" conform, "invalid*" violate the documented schema
_HEADER_VALUES = {
    "number": [["valid", "1.5"], ["valid_integer", "2"], ["invalid", "x"], ["invalid_empty", ""]],
    "boolean": [["valid", "true"], ["valid_false", "false"], ["invalid", "x"], ["invalid_empty", ""]],
    "enum_string": [["valid", "a"], ["invalid", "c"], ["invalid_empty", ""]],
    "int_minimum": [["valid", "1"], ["invalid_below", "0"], ["invalid", "x"]],
    "integer": [["valid", "1"], ["invalid", "x"], ["invalid_empty", ""]],
    "string": [["valid", "s"], ["valid_empty", ""]],
}


def header_objects(variant: str, spec: str) -> tuple[dict | None, dict]:
    """(headers member of the response object, components.headers it needs)."""
    two = spec == "2.0"

    def obj(schema: dict, required: bool | None = None) -> dict:
        if two:
            return dict(schema)  # a Swagger 2.0 Header Object is the schema itself and has no `required`
        out: dict[str, Any] = {}
        if required is not None:
            out["required"] = required
        out["schema"] = dict(schema)
        return out

    if variant == "lower_name":
        return {"x-a": obj({"type": "integer"}, True)}, {}
    if variant == "two":
        return {"X-A": obj({"type": "string"}), "X-B": obj({"type": "integer"}, True)}, {}
    if variant == "two_rev":
        return {"X-B": obj({"type": "integer"}, True), "X-A": obj({"type": "string"})}, {}
    if variant == "both_required":
        return {"X-A": obj({"type": "integer"}, True), "X-B": obj({"type": "integer"}, True)}, {}
    if variant in _HEADER_SCHEMAS:
        return {"X-A": obj(_HEADER_SCHEMAS[variant], True)}, {}
    if variant == "required_false":
        return {"X-A": obj({"type": "integer"}, False)}, {}
    if variant == "content_form":
        return {"X-A": {"required": True, "content": {"text/plain": {"schema": {"type": "integer"}}}}}, {}
    if variant == "empty_headers":
        return {}, {}
    if variant == "ref_optional":
        return {"X-A": {"$ref": "#/components/headers/XO"}}, {"XO": {"schema": {"type": "integer"}}}
    raise ValueError(variant)


def header_space(variant: str) -> list[tuple[str, list[list[str]]]]:
    """[(class, [[name, value], ...])] - the received documented headers for one header variant."""
    def single(kind: str, names: list[str]) -> list[tuple[str, list[list[str]]]]:
        out: list[tuple[str, list[list[str]]]] = [("absent", [])]
        for cls, value in _HEADER_VALUES[kind]:
            for name in names:
                out.append((cls if name == names[0] else f"{cls}/name={name}", [[name, value]]))
        return out

    if variant in ("two", "two_rev"):
        out = []
        for a_cls, a in (("absent", None), ("valid", "s")):
            for b_cls, b in (("absent", None), ("valid", "1"), ("invalid", "x")):
                pairs = ([["X-A", a]] if a is not None else []) + ([["X-B", b]] if b is not None else [])
                out.append((f"A={a_cls},B={b_cls}", pairs))
        # the second header received first
        out.append(("A=valid,B=invalid/B first", [["X-B", "x"], ["X-A", "s"]]))
        return out
    if variant == "both_required":
        out = []
        for a_cls, a in (("absent", None), ("valid", "1"), ("invalid", "x")):
            for b_cls, b in (("absent", None), ("valid", "1"), ("invalid", "x")):
                pairs = ([["X-A", a]] if a is not None else []) + ([["X-B", b]] if b is not None else [])
                out.append((f"A={a_cls},B={b_cls}", pairs))
        return out
    if variant == "lower_name":
        return single("integer", ["x-a", "X-A"])
    if variant in _HEADER_SCHEMAS:
        return single(variant, ["X-A", "x-a"])
    if variant in ("required_false", "content_form", "ref_optional"):
        return single("integer", ["X-A", "x-a"])
    if variant == "empty_headers":
        return [("absent", []), ("undocumented_header", [["X-A", "x"]])]
    raise ValueError(variant)


# -- work items ------------------------------------------------------------------------------------------------------------------

def items(tier: str, specs: list[str]) -> list[dict]:
    out: list[dict] = []

    def add(dim: str, spec: str, keys: list, **kw: Any) -> None:
        item = {"fam": "X", "dim": dim, "spec": spec, "keys": [[k, False] for k in keys], "content": "json", "schema": "required_int",
                "header": "none", "via_ref": False, "produces": "json" if spec == "2.0" else None}
        item.update(kw)
        out.append(item)

    for spec in specs:
        two = spec == "2.0"
        # schema: deeper families + the further bodies on the families of family R
        families = ["required_int", "nullable", "ref", "recursive_ref", *SCHEMA_FAMILIES]
        if two:
            families.remove("write_only_nested")  # writeOnly is not an OpenAPI 2.0 keyword
        for family in families:
            for keys in (["200"], ["default"]):
                for via_ref in (False, True):
                    add("schema", spec, keys, schema=family, via_ref=via_ref)
        # media
        if two:
            for produces in ["none", "json", "json_xml", "xml_json", "problem", "global_json", *PRODUCES]:
                for family in (None, "required_int", "nullable"):
                    for via_ref in (False, True):
                        add("media", spec, ["200"], produces=produces, content="none" if family is None else "schema",
                            schema=family or "required_int", via_ref=via_ref)
        else:
            for content in CONTENT_VARIANTS:
                for family in ("required_int", "nullable"):
                    for via_ref in (False, True):
                        add("media", spec, ["200"], content=content, schema=family, via_ref=via_ref)
            for content in ["none", "json", "json_xml", "xml_json", "any", "problem", "json_problem"]:
                add("media", spec, ["200"], content=content)
        # headers
        for header in (HEADER_VARIANTS_2 if two else HEADER_VARIANTS_3):
            for keys in (["200"], ["default"]):
                for content in ("json", "none"):
                    for via_ref in (False, True):
                        add("headers", spec, keys, header=header, content=content, via_ref=via_ref)
        # entry
        for keys in (["200"], ["200", "default"] if two else ["2XX", "default"]):
            for family in ("required_int", "nullable"):
                add("entry", spec, keys, schema=family, header="required_int")
    return out


def slim_31_items() -> list[dict]:
    """OpenAPI 3.1 in the quick tier (families S and R run it in the thorough tier only)."""
    out: list[dict] = []
    for k200 in (["200", False], ["200", True]):
        keys = [k200] + [[k, False] for k in ("201", "2XX", "4XX", "default")]
        for ordered in (keys, keys[::-1]):
            for pa in range(len(ordered)):
                out.append({"fam": "S", "spec": "3.1", "keys": ordered, "pa": pa})
    for content in ("json", "json_problem"):
        for family in ("required_int", "nullable", "write_only", "read_only", "ref", "recursive_ref"):
            for header in ("none", "ref"):
                for via_ref in (False, True):
                    out.append({"fam": "R", "spec": "3.1", "keys": [["200", False]], "content": content, "schema": family, "header": header,
                                "via_ref": via_ref, "produces": None})
    return out


# -- the alphabet of responses per dimension -------------------------------------------------------------------------------------

def response_space(item: dict, base_content_types: list, bodies: list[tuple[str, bytes]]) -> list[dict]:
    """[{status, ct_class, ct, ct_name, body_class, body, header_class, headers}] for one item of family X."""
    dim = item["dim"]
    by_class = {c: v for c, v in base_content_types}
    std = [b for b in bodies if b[0] in ("valid_A", "invalid_A", "valid_B_only", "null", "malformed_json", "empty")]
    out: list[dict] = []

    def add(status: int, ct_class: str, ct: Any, body: tuple[str, bytes], header_class: str, headers: list, ct_name: str = "Content-Type") -> None:
        out.append({"status": status, "ct_class": ct_class, "ct": ct, "ct_name": ct_name, "body_class": body[0], "body": body[1],
                    "header_class": header_class, "headers": headers})

    if dim == "schema":
        for ct_class in ("json", "json_params", "problem_json", "absent"):
            for body in bodies:
                add(200, ct_class, by_class[ct_class], body, "absent", [])
    elif dim == "media":
        for ct_class, ct in [*base_content_types, *MEDIA_CONTENT_TYPES]:
            for body in std:
                add(200, ct_class, ct, body, "absent", [])
    elif dim == "headers":
        for status in (200, 404):
            for body in [b for b in std if b[0] in ("valid_A", "invalid_A")]:
                for header_class, headers in header_space(item["header"]):
                    add(status, "json", by_class["json"], body, header_class, headers)
    elif dim == "entry":
        for status in (200, 404):
            for ct_class in ("absent", "json", "json_params", "json_uppercase", "plain", "malformed"):
                for body in std:
                    for header_class, headers in (("absent", []), ("valid", [["x-a", "1"]]), ("invalid", [["x-a", "x"]])):
                        add(status, ct_class, by_class[ct_class], body, header_class, headers, ct_name="content-type")
    else:
        raise ValueError(dim)
    return out


class RequestsResponses:
    """Builds the unified response the way the transport does: urllib3 response -> requests.Response -> Response.from_requests."""

    def __init__(self) -> None:
        from requests.adapters import HTTPAdapter

        self.adapter = HTTPAdapter()

    def build(self, status: int, headers: list[list[str]], body: bytes, request: Any) -> Any:
        import urllib3
        from schemathesis.core.transport import Response
        from urllib3._collections import HTTPHeaderDict

        wire = HTTPHeaderDict()
        for name, value in headers:
            wire.add(name, value)
        raw = urllib3.HTTPResponse(body=io.BytesIO(body), headers=wire, status=status, preload_content=False, version=11, reason="")
        response = self.adapter.build_response(request, raw)
        response.content  # noqa: B018 - reads the body like `Session.send` does
        return Response.from_requests(response, verify=False)
