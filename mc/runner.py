"""Runner shared by all property checks: work distribution, evidence, replay files, known findings."""

from __future__ import annotations

import argparse
import hashlib
import importlib
import json
import multiprocessing as mp
import os
import sys
import time
import traceback
from dataclasses import dataclass, field
from pathlib import Path
from typing import Any, Callable, Iterable

ROOT = Path(__file__).resolve().parent.parent
# VERIF_OUT redirects evidence and replay files (used when a check is run against a mutated scratch copy of the
# sources, so that the committed evidence of the real tree is never overwritten by such a run)
_OUT = Path(os.environ["VERIF_OUT"]) if os.environ.get("VERIF_OUT") else ROOT
EVIDENCE_DIR = _OUT / "evidence"
REPLAY_DIR = _OUT / "replays"
QUICK_BUDGET_FLOOR_S = 420
KNOWN_FINDINGS = ROOT / "known_findings.json"


@dataclass
class Result:
    """What one work item contributed.  All counters are measured, none is constant."""

    evaluations: int = 0  # executions on the real implementation
    states: int = 0
    transitions: int = 0
    traces: int = 0  # traces validated against the implementation (executions judged by the oracle)
    nontrivial: set = field(default_factory=set)  # hashes of distinct non-trivial cases
    outcomes: set = field(default_factory=set)  # coarse outcome classes (vacuity guard)
    violations: list = field(default_factory=list)  # dicts: signature, detail, item
    samples: list = field(default_factory=list)
    exhaustive: bool = True
    counters: dict = field(default_factory=dict)
    oracle_errors: list = field(default_factory=list)  # harness/oracle problems: check is broken, not violated
    violation_counts: dict = field(default_factory=dict)

    def count(self, key: str, n: int = 1) -> None:
        self.counters[key] = self.counters.get(key, 0) + n

    def nontriv(self, obj: Any) -> None:
        self.nontrivial.add(digest(obj))

    def violation(self, signature: dict, detail: dict, item: Any = None) -> None:
        key = digest(signature)
        self.violation_counts[key] = self.violation_counts.get(key, 0) + 1
        if self.violation_counts[key] <= 2:  # keep two witnesses per signature, count the rest
            self.violations.append({"signature": signature, "detail": detail, "item": item})

    def merge(self, o: "Result") -> None:
        self.evaluations += o.evaluations
        self.states += o.states
        self.transitions += o.transitions
        self.traces += o.traces
        self.nontrivial |= o.nontrivial
        self.outcomes |= o.outcomes
        for v in o.violations:
            if sum(1 for w in self.violations if digest(w["signature"]) == digest(v["signature"])) < 2:
                self.violations.append(v)
        for k, v in o.violation_counts.items():
            self.violation_counts[k] = self.violation_counts.get(k, 0) + v
        if len(self.samples) < 12:
            self.samples.extend(o.samples[: 12 - len(self.samples)])
        self.exhaustive = self.exhaustive and o.exhaustive
        for k, v in o.counters.items():
            self.counters[k] = self.counters.get(k, 0) + v
        self.oracle_errors.extend(o.oracle_errors[:5])


def digest(obj: Any) -> str:
    return hashlib.sha1(json.dumps(obj, sort_keys=True, default=repr).encode()).hexdigest()[:16]


def jsonable(obj: Any) -> Any:
    try:
        json.dumps(obj)
        return obj
    except (TypeError, ValueError):
        if isinstance(obj, dict):
            return {str(k): jsonable(v) for k, v in obj.items()}
        if isinstance(obj, (list, tuple, set, frozenset)):
            return [jsonable(v) for v in obj]
        if isinstance(obj, bytes):
            return {"$bytes": obj.hex()}
        if isinstance(obj, str):
            return obj.encode("utf-8", "backslashreplace").decode("ascii", "backslashreplace")
        return repr(obj)


_MODULE = None


def _init_worker(module_name: str) -> None:
    global _MODULE
    sys.setrecursionlimit(10000)
    _MODULE = importlib.import_module(module_name)
    init = getattr(_MODULE, "init_worker", None)
    if init is not None:
        init()


def _run_item(arg: tuple) -> Result:
    item, tier = arg
    try:
        res = _MODULE.check_item(item, tier)
    except Exception as exc:  # noqa: BLE001 - a crashing harness is a broken check, never a pass
        res = Result()
        res.oracle_errors.append({"item": jsonable(item), "error": "".join(traceback.format_exception(exc))[-3000:]})
    for v in res.violations:
        if v.get("item") is None:
            v["item"] = item
    return res


def load_known(property_id: str) -> tuple[list[dict], list[dict]]:
    known: list[dict] = []
    fixed: list[dict] = []
    # known_findings.json is the committed list; findings_proposed/<ID>.json is a staging area used while a check is
    # being built (reviewed and merged into known_findings.json by hand, never written at run time)
    for path in (KNOWN_FINDINGS, ROOT / "findings_proposed" / f"{property_id}.json"):
        if not path.exists():
            continue
        data = json.loads(path.read_text())
        known += [e for e in data.get("known", []) if e["property"] == property_id]
        fixed += [e for e in data.get("fixed", []) if e["property"] == property_id]
    return known, fixed


def matches(entry: dict, signature: dict) -> bool:
    return all(signature.get(k) == v for k, v in entry["signature"].items())


def _default_workers() -> int:
    """16 cores; when other checks run concurrently (development), take a fair share instead of oversubscribing."""
    try:
        load = os.getloadavg()[0]
    except OSError:
        load = 0.0
    if load > 24:
        return 4
    if load > 12:
        return 8
    return 16


def main(module_name: str) -> int:
    parser = argparse.ArgumentParser()
    parser.add_argument("--tier", default=os.environ.get("VERIF_TIER", "quick"), choices=["quick", "thorough"])
    parser.add_argument("--replay", default=None)
    parser.add_argument("--workers", type=int, default=int(os.environ.get("VERIF_WORKERS", "0")) or _default_workers())
    parser.add_argument("--max-seconds", type=float, default=None)
    parser.add_argument("--only", default=None, help="debugging: keep only work items whose JSON text contains this substring")
    args = parser.parse_args(sys.argv[2:])
    seed = int(os.environ.get("VERIF_SEED", "0"))
    if os.environ.get("PYTHONHASHSEED") != "0":
        os.environ["PYTHONHASHSEED"] = "0"
        os.execv(sys.executable, [sys.executable, *sys.argv])
    os.environ.setdefault("SCHEMATHESIS_VERIF", "1")
    sys.setrecursionlimit(10000)
    module = importlib.import_module(module_name)
    pid = module.ID
    if args.replay:
        return replay(module, args.replay, args.tier)
    t0 = time.time()
    items = list(module.items(args.tier, seed))
    # VERIF_SEED only rotates the distribution of work; results are order independent
    if items:
        k = seed % len(items)
        items = items[k:] + items[:k]
    if args.only:
        global EVIDENCE_DIR, REPLAY_DIR
        if not os.environ.get("VERIF_OUT"):
            # a partial run must never overwrite the evidence of the property
            EVIDENCE_DIR, REPLAY_DIR = ROOT / ".tmp" / "partial" / "evidence", ROOT / ".tmp" / "partial" / "replays"
        items = [i for i in items if args.only in json.dumps(i, sort_keys=True)]
        print(f"--only: {len(items)} work items kept (a partial run: not evidence for the property)")
    budget = args.max_seconds or getattr(module, "BUDGET_S", {}).get(args.tier)
    if not args.max_seconds and budget and args.tier == "quick":
        # the modules' quick budgets were measured on an idle 16-core box; on a loaded or smaller box the same enumeration
        # needs more wall clock - grant it rather than report a truncated (non-exhaustive) run
        budget = max(budget, QUICK_BUDGET_FLOOR_S)
    total = Result()
    done = 0
    capped = False
    workers = max(1, min(args.workers, len(items) or 1))
    serial = getattr(module, "SERIAL", False) or workers == 1
    if serial:
        _init_worker(module_name)
        for item in items:
            total.merge(_run_item((item, args.tier)))
            done += 1
            if budget and time.time() - t0 > budget:
                capped = done < len(items)
                break
    else:
        ctx = mp.get_context("fork")
        chunk = getattr(module, "CHUNK", 1)
        with ctx.Pool(workers, initializer=_init_worker, initargs=(module_name,)) as pool:
            it = pool.imap_unordered(_run_item, [(i, args.tier) for i in items], chunksize=chunk)
            for res in it:
                total.merge(res)
                done += 1
                if budget and time.time() - t0 > budget:
                    capped = done < len(items)
                    pool.terminate()
                    break
    if capped:
        total.exhaustive = False
        total.counters["items_done_before_time_cap"] = done
        total.counters["items_total"] = len(items)
    post = getattr(module, "finalize", None)
    if post is not None:
        post(total, args.tier)
    return report(module, total, args.tier, seed, time.time() - t0, len(items), done)


def report(module: Any, total: Result, tier: str, seed: int, wall: float, n_items: int, done: int) -> int:
    pid = module.ID
    known, fixed = load_known(pid)
    # group violations by signature
    groups: dict[str, list[dict]] = {}
    for v in total.violations:
        groups.setdefault(digest(v["signature"]), []).append(v)
    unknown: list[dict] = []
    matched_entries: dict[int, int] = {}
    for key, vs in sorted(groups.items()):
        sig = vs[0]["signature"]
        hit = None
        for idx, entry in enumerate(known):
            if matches(entry, sig):
                hit = idx
                break
        if hit is None:
            unknown.append(vs[0] | {"count": total.violation_counts.get(key, len(vs))})
        else:
            matched_entries[hit] = matched_entries.get(hit, 0) + total.violation_counts.get(key, len(vs))
    exit_code = 0
    for idx, n in sorted(matched_entries.items()):
        print(f"KNOWN-FINDING: property={pid} {known[idx]['text']} [{n} enumerated cases]")
    # replay-before-report: the same item must reproduce the same signature twice
    REPLAY_DIR.mkdir(exist_ok=True, parents=True)
    for old in REPLAY_DIR.glob(f"{pid}-*.json"):
        old.unlink()
    confirmed = []
    harness_errors = list(total.oracle_errors)
    if unknown:
        _init_worker(module.__name__)
    for v in unknown[:20]:
        ok = True
        unstable = True
        for _ in range(2):
            again = _run_item((v["item"], tier))
            if not any(digest(a["signature"]) == digest(v["signature"]) for a in again.violations):
                ok = False
            # the same work item violates again, under another signature that is no known finding either: the defect is real
            # but what it damages differs between executions (e.g. two real writer threads racing for one queue)
            if not any(not any(matches(entry, a["signature"]) for entry in known) for a in again.violations):
                unstable = False
        if ok:
            confirmed.append(v)
        elif unstable:
            confirmed.append(v | {"signature": {**v["signature"], "varies_between_executions": True}})
        else:
            harness_errors.append({"error": "violation did not reproduce on replay", "signature": v["signature"]})
    for n, v in enumerate(confirmed):
        path = REPLAY_DIR / f"{pid}-{n}.json"
        path.write_text(json.dumps(jsonable({"property": pid, "tier": tier, "module": module.__name__, **v}), indent=1))
        print(f"VIOLATION property={pid} replay={path}")
        print("  signature:", json.dumps(jsonable(v["signature"]), sort_keys=True))
        print("  detail:", json.dumps(jsonable(v["detail"]), sort_keys=True)[:1500])
        exit_code = 1
    for v in unknown[20:]:
        # beyond the replay cap: listed so that every distinct signature is visible (the first 20 were replayed)
        print(f"  further-signature (not replayed): {json.dumps(jsonable(v['signature']), sort_keys=True)} count={v.get('count')}")
    vac = getattr(module, "vacuity", None)
    if vac is not None and done < n_items:
        # coverage counters of a run that was cut short by its time budget say nothing about the check: the run is reported
        # as not exhaustive (items done / total in the evidence), and only what was explored is claimed
        print(f"NOTE property={pid} time budget reached after {done}/{n_items} work items: vacuity rules not evaluated")
    elif vac is not None:
        for msg in vac(total, tier):
            harness_errors.append({"error": f"vacuous: {msg}"})
    if harness_errors:
        REPLAY_DIR.mkdir(parents=True, exist_ok=True)
        (REPLAY_DIR / f"{pid}-harness-errors.json").write_text(json.dumps(jsonable(harness_errors), indent=1))
        for e in harness_errors[:10]:
            print(f"HARNESS-ERROR property={pid}", json.dumps(jsonable(e))[:3000])
        exit_code = exit_code or 2
    coverage = {
        "states": total.states,
        "transitions": total.transitions,
        "traces_validated_against_impl": total.traces,
        "evaluations": total.evaluations,
        "distinct_nontrivial": len(total.nontrivial),
        "distinct_outcomes": len(total.outcomes),
        "rule": getattr(module, "RULE", ""),
        "samples": jsonable(total.samples[:12]),
        "exhaustive": bool(total.exhaustive),
        "work_items": n_items,
        "work_items_done": done,
        "bounds": jsonable(getattr(module, "BOUNDS", {}).get(tier, {})),
        "counters": total.counters,
        "known_findings_matched": {known[i]["id"]: n for i, n in matched_entries.items()},
        "violation_signatures": len(groups),
    }
    evidence = {
        "property_id": pid,
        "tier": tier,
        "seed": seed,
        "level": module.LEVEL,
        "coverage": coverage,
        "assumptions": list(getattr(module, "ASSUMPTIONS", [])),
        "wall_s": round(wall, 2),
        "violations": len(confirmed),
    }
    EVIDENCE_DIR.mkdir(exist_ok=True, parents=True)
    (EVIDENCE_DIR / f"{pid}.json").write_text(json.dumps(evidence, indent=1, sort_keys=True))
    print(
        f"{pid} tier={tier} seed={seed} items={done}/{n_items} evaluations={total.evaluations} states={total.states} "
        f"transitions={total.transitions} nontrivial={len(total.nontrivial)} outcomes={len(total.outcomes)} "
        f"exhaustive={total.exhaustive} signatures={len(groups)} new={len(confirmed)} wall={wall:.1f}s"
    )
    return exit_code


def replay(module: Any, path: str, tier: str) -> int:
    data = json.loads(Path(path).read_text())
    _init_worker(module.__name__)
    item = data["item"]
    conv = getattr(module, "item_from_json", None)
    if conv is not None:
        item = conv(item)
    res = _run_item((item, data.get("tier", tier)))
    want = digest(data["signature"])
    for v in res.violations:
        if digest(jsonable(v["signature"])) == want:
            print(f"VIOLATION property={module.ID} replay={path}")
            print(json.dumps(jsonable(v), indent=1)[:4000])
            return 1
    print("replay: violation not reproduced;", len(res.violations), "other violations")
    return 0
