"""Hooks module of C15 (review round 2): `SCHEMATHESIS_HOOKS=mc.c15_extra` = mc.cli_hooks + one more scripted behaviour.

A route of the scenario (see mc/cli_hooks.py) may say `{"raise": "connection"}`: the request is logged (status 0 = no
response) and the adapter raises what `requests.adapters.HTTPAdapter.send` raises when the TCP connection is refused:

    requests.ConnectionError(urllib3.MaxRetryError(pool, <path?query as sent>, NewConnectionError(conn, "...refused")), request=request)

built from the real classes, in the same nesting (the MaxRetryError text therefore contains the request's path and
query string exactly as the real one does).  Everything else is mc.cli_hooks unchanged (same scenario file, same
environment variable VERIF_CLI_SCENARIO, its own `install`): only the adapter class and the handler it is given are
the subclass / wrapper defined here.
"""

from __future__ import annotations

import json
import os
from typing import Any
from urllib.parse import urlsplit

import requests
import urllib3
from urllib3.exceptions import MaxRetryError, NewConnectionError

from mc import httpseam


class _NoResponse(Exception):
    pass


def connection_refused(request: requests.PreparedRequest) -> requests.ConnectionError:
    parts = urlsplit(request.url or "")
    host, port = parts.hostname or "", parts.port or 80
    pool = urllib3.HTTPConnectionPool(host, port=port)
    conn = urllib3.connection.HTTPConnection(host, port)
    reason = NewConnectionError(conn, "Failed to establish a new connection: [Errno 111] Connection refused")
    try:
        try:
            raise MaxRetryError(pool, request.path_url, reason) from reason
        except MaxRetryError as exc:
            raise requests.ConnectionError(exc, request=request)
    except requests.ConnectionError as final:
        return final


class Adapter(httpseam.InProcessAdapter):
    def send(self, request: requests.PreparedRequest, **kwargs: Any) -> requests.Response:  # type: ignore[override]
        try:
            return super().send(request, **kwargs)
        except _NoResponse:
            pass
        raise connection_refused(request)


# mc.cli_hooks installs itself at import time when its environment variable is set: import it with the variable hidden,
# put the two extensions in place, then install the scenario through its own `install`.
_path = os.environ.pop("VERIF_CLI_SCENARIO", None)
from mc import cli_hooks  # noqa: E402

assert cli_hooks.ENV == "VERIF_CLI_SCENARIO"
_plain_handler = cli_hooks._handler


def _handler(exchange: httpseam.Exchange) -> tuple:
    route = cli_hooks._scenario.get("routes", {}).get(exchange.path) or {}
    if route.get("raise") == "connection":
        cli_hooks._write(cli_hooks._scenario.get("log"), {
            "method": exchange.method, "url": exchange.url, "path": exchange.path, "query": exchange.query, "headers": exchange.headers,
            "body": None if exchange.body is None else exchange.body.decode("utf-8", "backslashreplace"),
            "status": 0, "thread": exchange.thread})
        raise _NoResponse
    return _plain_handler(exchange)


if _path:
    os.environ["VERIF_CLI_SCENARIO"] = _path
    httpseam.InProcessAdapter = Adapter  # type: ignore[misc]
    cli_hooks._handler = _handler
    with open(_path, encoding="utf-8") as _fd:
        cli_hooks.install(json.load(_fd))
