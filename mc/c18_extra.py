"""Enumerators added by review round 2 of C18 (the oracle, the real objects and the judging stay in props/c18.py).

* ``EXTRA_OPS``: operations appended to the API document of props/c18.py (indexes 8..).  They give the document what the first
  version lacked: nested templates whose path VARIABLES ARE NAMED DIFFERENTLY for the same position (``{id}`` / ``{user_id}`` /
  ``{uid}``), a collection whose NAME EXTENDS another one's (``/userstats`` vs ``/users`` - unrelated resources), and a POST that has
  identifiers of its own (``POST /users/{user_id}/comments`` - "a successful POST on a prefix of its path" with identifier values).
  Collection names that differ only in trailing ``s`` are deliberately absent: the property text says "same path prefix" and does
  not say whether the singular/plural heuristic of ``_is_prefix_operation`` is right, so such pairs would be undecided.
* ``EXTRA_BOUNDS``: narrow history families, one per added dimension (see the comments next to each).
* ``features``: coverage counters that prove each family reached the shape it was added for (used by ``vacuity``).
* ``ENGINE_SCENARIOS`` + ``scripted_api`` + ``tree_of``: the other entry point - the real stateful phase of the real engine runs
  against a scripted API with both checks enabled (one deterministic execution per scripted behaviour); the trees are read back
  from the raw data of the recorders (``cases`` / ``interactions`` / ``checks``, never through find_parent / find_related /
  find_response) and judged by the same reference predicates.
"""

from __future__ import annotations

import json
import re
from typing import Any, Callable

# ---------------------------------------------------------------------------------------------------------------------
# Document: operations 8..12
# ---------------------------------------------------------------------------------------------------------------------

EXTRA_OPS = [
    {"method": "GET", "path": "/users/{user_id}/comments", "vars": ["user_id"], "query": []},            # 8
    {"method": "DELETE", "path": "/users/{uid}/comments/{cid}", "vars": ["uid", "cid"], "query": []},    # 9
    {"method": "GET", "path": "/userstats/{id}", "vars": ["id"], "query": []},                           # 10
    {"method": "DELETE", "path": "/userstats/{id}", "vars": ["id"], "query": []},                        # 11
    {"method": "POST", "path": "/users/{user_id}/comments", "vars": ["user_id"], "query": []},           # 12
]
EXTRA_OPERATION_IDS = {8: "listComments", 9: "deleteComment", 10: "getStats", 11: "deleteStats", 12: "addComment"}
# variables that take their values from the second identifier pool (`pids`)
SECOND_LEVEL_VARIABLES = ("pid", "cid")
EXTRA_EXPRESSIONS = {"user_id": "$response.body#/id", "uid": "$response.body#/id", "cid": "$response.body#/pid"}
# links out of `POST /users` -> 201 for the metadata-conformance item: name -> (operation, shape)
EXTRA_LINKS = {
    "CommentsAll": (8, "all"), "CommentsNone": (8, "none"),
    "DeleteCommentAll": (9, "all"), "DeleteCommentSome": (9, "some"),
    "StatsAll": (10, "all"), "DeleteStatsAll": (11, "all"),
    "AddCommentAll": (12, "all"), "AddCommentNone": (12, "none"),
}

# ---------------------------------------------------------------------------------------------------------------------
# History families.  "E" = a network error was recorded for the step (record_request: an interaction without a response),
# "U" = nothing was recorded for the step (a case without an interaction).  Both can only be EARLIER steps: the checks are
# called with the response of the newest one.
# ---------------------------------------------------------------------------------------------------------------------

NO_RESPONSE = ("E", "U")
_SHAPES = "all/some/none on the newest step, 'all' on earlier link-derived steps"

EXTRA_BOUNDS = {
    # depth 5 (one deeper than C): a DELETE three levels below the root in another branch than the judged request, chains of
    # four links; over the narrowest alphabet that still has a create, a use and a delete
    "D": {"depth": 5, "ids": [1], "pids": [1], "statuses": [200, 404], "earlier_statuses": [200], "ops": [0, 1, 3],
          "override_shapes": _SHAPES},
    # steps WITHOUT a recorded response (network error / never recorded) among the earlier steps: a DELETE nobody saw succeed,
    # a POST nobody saw succeed, also as parents of other steps
    "N": {"depth": 4, "ids": [1], "pids": [1], "statuses": [200, 404], "earlier_statuses": [200, "E", "U"], "ops": [0, 1, 3],
          "override_shapes": _SHAPES},
    # the status alphabet: every common 2xx (201 Created, 202 Accepted, 204 No Content), the limits of the classes the text
    # names (299 | 300, 399 | 400, 499 | 5xx), another 4xx and another 5xx - for the DELETE, the POST and the judged request
    "S": {"depth": 3, "ids": [1], "pids": [1], "statuses": [200, 201, 202, 204, 299, 300, 399, 400, 401, 404, 499, 503],
          "ops": [0, 1, 3], "override_shapes": _SHAPES},
    # identifier TYPES: the same identifier as an integer and as a string (a link may take it from a JSON number, a JSON string,
    # a header or the request path), strings that differ in letter case only, and the string prefix pair
    "T": {"depth": 3, "ids": [1, "1", "11", "a", "A"], "pids": ["1"], "statuses": [200, 404], "earlier_statuses": [200],
          "ops": [0, 1, 3, 5], "override_shapes": _SHAPES},
    # document shapes: differently named variables, a collection name that extends another, a POST with identifiers
    "V": {"depth": 3, "ids": [1, 11], "pids": [1], "statuses": [200, 404], "earlier_statuses": [200],
          "ops": [0, 1, 3, 8, 9, 10, 11, 12], "override_shapes": _SHAPES},
}


def features(family: str, ops: list, history: list, facts: dict, uaf: str, era: str, allow_era: Any) -> list[str]:
    """Names of the coverage counters this judged history contributes to (facts = what the use-after-free oracle computed)."""
    out = []
    newest = history[-1]
    deleted_by = [history[j] for j in facts["successful_deletes"]]
    if family == "S":
        if uaf == "reported" and deleted_by and all(s[2] != 200 for s in deleted_by):
            out.append("S_use_after_free_reported_after_delete_with_another_2xx")
        if uaf == "reported" and newest[2] not in (200, 403):
            out.append("S_use_after_free_reported_for_another_answer")
        if era == "reported" and allow_era is True and history[newest[3]][2] != 200:
            out.append("S_unavailable_reported_after_post_with_another_2xx")
    elif family == "T":
        if uaf == "reported" and deleted_by and all(
            [type(v) for v in s[1]] != [type(v) for v in newest[1][: len(s[1])]] for s in deleted_by
        ):
            out.append("T_use_after_free_reported_across_identifier_types")
    elif family == "V":
        if uaf == "reported" and deleted_by and all(
            ops[s[0]]["vars"] != ops[newest[0]]["vars"][: len(s[1])] for s in deleted_by
        ):
            out.append("V_use_after_free_reported_across_variable_names")
        source = history[newest[3]] if newest[3] != -1 else None
        if era == "reported" and allow_era is True and source is not None and source[1]:
            out.append("V_unavailable_reported_after_post_with_identifiers")
    elif family == "N":
        if uaf == "silent" and any(history[j][2] in NO_RESPONSE for j in facts["failed_deletes"]):
            out.append("N_silent_after_delete_without_response")
    return out


def unrelated_name_extension(ops: list, history: list) -> bool:
    """Family V: an earlier successful DELETE on `/userstats/{id}` (resp. `/users/{id}`) with the identifier of the newest
    request, which is on `/users/...` (resp. `/userstats/...`): related by name prefix only."""
    newest = history[-1]
    first = ops[newest[0]]["path"].split("/")[1]
    for step in history[:-1]:
        spec = ops[step[0]]
        other = spec["path"].split("/")[1]
        if (spec["method"] == "DELETE" and step[2] == 200 and other != first and newest[1] and step[1][:1] == newest[1][:1]
                and (other.startswith(first) or first.startswith(other))):
            return True
    return False


# ---------------------------------------------------------------------------------------------------------------------
# The real engine against a scripted API
# ---------------------------------------------------------------------------------------------------------------------

# name -> links out of POST /users 201 (name -> (operation, parameters)), behaviour of the scripted API
ENGINE_SCENARIOS: dict[str, dict] = {
    # the API forgets nothing: DELETE answers 204, the resource stays available
    "zombie": {"links": {"DeleteUser": (3, {"id": "$response.body#/id"}), "GetUser": (1, {"id": "$response.body#/id"})},
               "delete": 204, "after_delete": 200, "fresh": 200},
    # same, but the identifier reaches the two operations with different types: a JSON number and a header string
    "zombie_mixed_identifier_types": {
        "links": {"DeleteUser": (3, {"id": "$response.body#/id"}), "GetUser": (1, {"id": "$response.header.X-Id"})},
        # a repeated DELETE is answered 404, so that the only use after free is the GET (the engine records equal failures once)
        "delete": 204, "delete_again": 404, "after_delete": 200, "fresh": 200},
    # a correct API: 404 after a successful DELETE
    "correct": {"links": {"DeleteUser": (3, {"id": "$response.body#/id"}), "GetUser": (1, {"id": "$response.body#/id"})},
                "delete": 204, "after_delete": 404, "fresh": 200},
    # DELETE is refused: nothing was freed
    "delete_refused": {"links": {"DeleteUser": (3, {"id": "$response.body#/id"}), "GetUser": (1, {"id": "$response.body#/id"})},
                       "delete": 403, "after_delete": 200, "fresh": 200},
    # the created resource is never available
    "unavailable": {"links": {"GetUser": (1, {"id": "$response.body#/id"})}, "delete": 204, "after_delete": 404, "fresh": 404},
    # ... but the request's identifier was generated, it did not come from the link
    "unavailable_generated_identifier": {"links": {"GetUser": (1, {})}, "delete": 204, "after_delete": 404, "fresh": 404},
}


def scripted_api(scenario: dict) -> Callable:
    """Handler for mc.httpseam: POST /users -> 201 {"id": 1}; DELETE /users/{id} -> `delete` (and frees the resource when 2xx);
    any request below /users/{id} -> `after_delete` once freed, `fresh` before."""
    freed: set[str] = set()
    headers = [("Content-Type", "application/json"), ("X-Id", "1")]
    body = json.dumps({"id": 1, "pid": 1, "limit": 5}).encode()

    def handler(exchange: Any) -> tuple:
        if exchange.method == "POST":
            return 201, headers, body
        match = re.match(r"^/users/([^/]+)(/.*)?$", exchange.path)
        if not match:
            return scenario["fresh"], headers, body
        ident = match.group(1)
        if exchange.method == "DELETE" and not match.group(2):
            status = scenario["delete"]
            if ident in freed:
                status = scenario.get("delete_again", scenario["after_delete"])
            elif 200 <= status < 300:
                freed.add(ident)
            return status, headers, (b"" if status == 204 else body)
        return (scenario["after_delete"] if ident in freed else scenario["fresh"]), headers, body

    return handler


def tree_of(recorder: Any, ops: list) -> tuple[list, list]:
    """(steps, verdicts) of one finished scenario, in recording order, from the recorder's raw mappings.

    step = [operation index, identifiers, status | "E" | "U", parent index | -1, shape]; shape = which of the operation's declared
    parameters the recorded transition extracted from the parent's response (all / some / none; "root" without parent).
    verdicts[i] = {check name: "SUCCESS" | "FAILURE"} as recorded for that case (a check that is missing was deduplicated,
    skipped or never run: undecided)."""
    labels = {f"{o['method']} {o['path']}": n for n, o in enumerate(ops)}
    index = {case_id: n for n, case_id in enumerate(recorder.cases)}
    steps, verdicts = [], []
    for case_id, node in recorder.cases.items():
        case = node.value
        op = labels[case.operation.label]
        spec = ops[op]
        ids = [(case.path_parameters or {}).get(v) for v in spec["vars"]]
        interaction = recorder.interactions.get(case_id)
        status = "U" if interaction is None else ("E" if interaction.response is None else interaction.response.status_code)
        if node.parent_id is None:
            parent, shape = -1, "root"
        else:
            parent = index[node.parent_id]
            supplied = set()
            if node.transition is not None:
                for container in node.transition.parameters.values():
                    for name, extracted in container.items():
                        if type(extracted.value).__name__ == "Ok":
                            supplied.add(name)
            declared = spec["vars"] + spec["query"]
            if all(name in supplied for name in declared):
                shape = "all"
            elif any(name in supplied for name in declared):
                shape = "some"
            else:
                shape = "none"
            if node.transition is None:
                shape = "derived"  # a case made inside a check: its parameters did not come from a link
        steps.append([op, ids, status, parent, shape])
        verdicts.append({c.name: c.status.name for c in recorder.checks.get(case_id, [])})
    return steps, verdicts
