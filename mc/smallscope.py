"""E2 - small-scope enumerators: every object of a grammar up to a size bound, simplest first, stable order."""

from __future__ import annotations

import copy
import itertools
from typing import Any, Iterator

PATTERNS = ["a", "^a", "a$", "^a+$", "a+", "[ab]", "^[ab]{1,2}$", "^ab?c*$", r"\d", r"^\d{3}$"]


def subsets(options: list[tuple[str, list[Any]]], k: int) -> Iterator[dict[str, Any]]:
    """All assignments of values to at most ``k`` of the given keywords."""
    names = [n for n, _ in options]
    values = dict(options)
    for size in range(0, k + 1):
        for combo in itertools.combinations(names, size):
            for vals in itertools.product(*(values[n] for n in combo)):
                yield dict(zip(combo, vals))


def string_schemas(k: int, *, patterns: list[str] | None = None, formats: bool = True) -> Iterator[dict]:
    opts: list[tuple[str, list[Any]]] = [
        ("minLength", [0, 1, 2]),
        ("maxLength", [0, 1, 3]),
        ("pattern", patterns if patterns is not None else PATTERNS),
    ]
    if formats:
        opts.append(("format", ["date", "uuid", "byte", "binary"]))
    for kw in subsets(opts, k):
        if "format" in kw and ("pattern" in kw):
            continue  # format x pattern: satisfiability is outside the brute-force alphabet
        yield {"type": "string", **kw}


def numeric_schemas(k: int, spec: str) -> Iterator[dict]:
    for t in ("integer", "number"):
        opts: list[tuple[str, list[Any]]] = [
            ("minimum", [-1, 0, 1]),
            ("maximum", [-1, 0, 1]),
            ("multipleOf", [2, 0.5]),
        ]
        if spec == "3.1":
            opts += [("exclusiveMinimum", [0]), ("exclusiveMaximum", [1])]
        else:
            opts += [("exclusiveMinimum", [True]), ("exclusiveMaximum", [True])]
        for kw in subsets(opts, k):
            if spec != "3.1":
                if "exclusiveMinimum" in kw and "minimum" not in kw:
                    continue
                if "exclusiveMaximum" in kw and "maximum" not in kw:
                    continue
            yield {"type": t, **kw}


def misc_schemas(spec: str) -> Iterator[dict]:
    yield {"type": "boolean"}
    yield {"enum": ["a", 1]}
    yield {"type": "string", "enum": ["x", "y"]}
    yield {"type": "integer", "enum": [1, 2]}
    # keywords written out with their neutral value (same meaning as leaving them out)
    if spec != "3.1":
        yield {"type": "integer", "minimum": 1, "exclusiveMinimum": False}
        yield {"type": "integer", "maximum": 1, "exclusiveMaximum": False}
    yield {"type": "string", ("x-nullable" if spec == "2.0" else "nullable"): False} if spec != "3.1" else {"type": "string", "minLength": 0}
    if spec == "3.1":
        yield {"type": ["string", "null"]}
        yield {"type": ["integer", "null"], "minimum": 1}
    elif spec == "3.0":
        yield {"type": "string", "nullable": True}
        yield {"type": "integer", "nullable": True, "minimum": 1}
    else:
        yield {"type": "string", "x-nullable": True}


def array_schemas(k: int) -> Iterator[dict]:
    for items in ({"type": "string"}, {"type": "integer"}, {"type": "boolean"}, {"type": "integer", "minimum": 1, "maximum": 2}):
        opts: list[tuple[str, list[Any]]] = [("minItems", [0, 1, 2]), ("maxItems", [0, 1, 2]), ("uniqueItems", [True, False])]
        for kw in subsets(opts, k):
            yield {"type": "array", "items": copy.deepcopy(items), **kw}


def object_schemas() -> Iterator[dict]:
    p_int = {"type": "integer", "minimum": 1}
    p_str = {"type": "string", "maxLength": 2}
    for required in ([], ["a"], ["a", "b"]):
        for ap in (None, False):
            s: dict[str, Any] = {"type": "object", "properties": {"a": dict(p_int), "b": dict(p_str)}}
            if required:
                s["required"] = list(required)
            if ap is not None:
                s["additionalProperties"] = ap
            yield s
    yield {"type": "object", "properties": {"a": dict(p_int), "b": dict(p_str)}, "required": ["a"], "additionalProperties": True}
    yield {"type": "object", "properties": {"a": dict(p_int), "r": {"type": "string", "readOnly": False}}, "required": ["a", "r"]}
    yield {"type": "object", "properties": {"a": dict(p_int), "r": {"type": "string", "readOnly": True}}, "required": ["a", "r"]}
    yield {"type": "object", "properties": {"a": dict(p_int), "r": {"type": "integer", "readOnly": True}}}
    yield {"type": "object", "properties": {"a": dict(p_int)}, "minProperties": 1}
    yield {"type": "object", "properties": {"a": dict(p_int), "b": dict(p_str)}, "maxProperties": 1}
    yield {"type": "object", "additionalProperties": {"type": "integer"}}
    yield {"type": "object", "properties": {"n": {"type": "object", "properties": {"a": dict(p_int)}, "required": ["a"]}}, "required": ["n"]}


def combinator_schemas() -> Iterator[dict]:
    a = {"type": "integer", "minimum": 1}
    b = {"type": "string", "maxLength": 1}
    c = {"type": "integer", "maximum": 2}
    for kw in ("anyOf", "oneOf"):
        yield {kw: [dict(a), dict(b)]}
        yield {kw: [dict(a), dict(c)]}
    yield {"allOf": [dict(a), dict(c)]}
    yield {"allOf": [dict(b), {"minLength": 1}]}
    yield {"type": "integer", "not": {"enum": [0]}}


def ref_variants(schema: dict, spec: str) -> Iterator[tuple[dict, dict]]:
    """(schema-as-used, components) pairs: inline, $ref depth 1, $ref depth 2."""
    prefix = "#/definitions/" if spec == "2.0" else "#/components/schemas/"
    yield schema, {}
    yield {"$ref": prefix + "S1"}, {"S1": schema}
    yield {"$ref": prefix + "S2"}, {"S2": {"$ref": prefix + "S1"}, "S1": schema}


SPEC_VERSIONS = {"2.0": "2.0", "3.0": "3.0.2", "3.1": "3.1.0"}


def make_document(spec: str, *, path: str, method: str, parameters: list[dict], body: dict | None = None,
                  components: dict | None = None, security: dict | None = None, responses: dict | None = None,
                  extra: dict | None = None) -> dict:
    """A one-operation document.  ``parameters`` are OAS3-style ({name,in,required,schema}); converted for 2.0."""
    components = components or {}
    responses = responses or {"200": {"description": "OK"}}
    op: dict[str, Any] = {"responses": responses}
    if spec == "2.0":
        params = []
        for p in parameters:
            q = {k: v for k, v in p.items() if k != "schema"}
            q.update(p.get("schema", {}))
            params.append(q)
        if body is not None:
            mt, schema = next(iter(body["content"].items()))
            params.append({"name": "body", "in": "body", "required": body.get("required", False), "schema": schema["schema"]})
            op["consumes"] = [mt]
        op["parameters"] = params
        doc: dict[str, Any] = {"swagger": "2.0", "info": {"title": "t", "version": "1"}, "paths": {path: {method: op}}}
        if components:
            doc["definitions"] = components
        if security:
            doc["securityDefinitions"] = security
            op["security"] = [{name: []} for name in security]
    else:
        op["parameters"] = parameters
        if body is not None:
            op["requestBody"] = body
        doc = {"openapi": SPEC_VERSIONS[spec], "info": {"title": "t", "version": "1"}, "paths": {path: {method: op}}}
        comp: dict[str, Any] = {}
        if components:
            comp["schemas"] = components
        if security:
            comp["securitySchemes"] = security
            op["security"] = [{name: []} for name in security]
        if comp:
            doc["components"] = comp
    if extra:
        doc.update(extra)
    return doc


def candidate_values(depth: int = 0) -> list[Any]:
    """Brute-force candidates used to decide satisfiability / negatability of small schemas."""
    strings = [""]
    alphabet = ["a", "b", "c", "0", "1", "x", " "]
    for n in (1, 2, 3):
        for combo in itertools.product(alphabet[:5], repeat=n):
            strings.append("".join(combo))
    strings += ["x", "y", "xy", "abcd", "aaaa", "0000", "2020-01-01", "00000000-0000-0000-0000-000000000000", "YQ==", "true", "null"]
    nums: list[Any] = [0, 1, -1, 2, -2, 3, 4, 0.5, -0.5, 1.5, 2.5, 0.25]
    out: list[Any] = strings + nums + [True, False, None]
    if depth == 0:
        out += [[], [1], [0], [1, 2], [1, 1], ["a"], ["a", "b"], ["a", "a"], [True], [True, False], [True, True], [1, 2, 3], ["a", "b", "c"]]
        out += [{}, {"a": 1}, {"a": 0}, {"a": 1, "b": "x"}, {"b": "x"}, {"a": "x"}, {"a": 1, "b": "xyz"}, {"z": 1}, {"a": 1, "z": 1},
                {"a": 1, "r": "x"}, {"a": 1, "r": 1}, {"n": {"a": 1}}, {"n": {}}, {"n": 1}, {"z": "x"}]
    return out
