"""E2 enumerators for C01, review round 2: whole operations instead of one parameter.

Every work item carries a complete OpenAPI document plus the *expectation* written down independently while the document is
built (which inputs each operation declares, with which schema, required or not, which media types, which security
parameters).  ``props/c01.py`` runs the real positive strategy on the document and judges every case against the expectation.

Neutral description of an operation (``op``):
    {"path", "method", "params": [P..], "shared": [P..] (path-item level), "bodies": [(media type, schema)..] | None,
     "body_required": bool, "form": [P..] (Swagger 2.0 formData), "consumes": [..] | None, "security": [names] | None,
     "operationId": str | None}
P = {"name", "in", "required": True | False | None (key left out), "schema", "extra": {parameter-level keywords},
     "content": media type | None (``content`` instead of ``schema``), "ref": 0 | 1 | 2 (declared through components)}
"""

from __future__ import annotations

import copy
from typing import Any

SPEC_VERSIONS = {"2.0": "2.0", "3.0": "3.0.2", "3.1": "3.1.0"}
SPECS = ("3.0", "2.0", "3.1")

INT = {"type": "integer", "minimum": 1}
ENUM = {"type": "string", "enum": ["x", "y"]}
BOOL = {"type": "boolean"}
SHORT = {"type": "string", "maxLength": 2}
UTF8 = {"allow_x00": True, "codec": "utf-8"}
ASCII = {"allow_x00": False, "codec": "ascii"}

FORM_TYPES = ["multipart/form-data", "application/x-www-form-urlencoded"]


def P(name: str, loc: str, required: Any, schema: dict, **kw: Any) -> dict:
    return {"name": name, "in": loc, "required": required, "schema": copy.deepcopy(schema), "extra": kw.pop("extra", {}),
            "content": kw.pop("content", None), "ref": kw.pop("ref", 0)}


def OP(path: str = "/t", method: str = "get", params: list | None = None, **kw: Any) -> dict:
    op = {"path": path, "method": method, "params": params or [], "shared": [], "bodies": None, "body_required": False,
          "form": [], "consumes": None, "security": None, "operationId": None}
    op.update(kw)
    return op


# -- document + expectation ----------------------------------------------------------------------------------------------

def _param_object(spec: str, p: dict) -> dict:
    out: dict[str, Any] = {"name": p["name"], "in": p["in"]}
    if p["required"] is not None:
        out["required"] = p["required"]
    out.update(copy.deepcopy(p["extra"]))
    if spec == "2.0":
        out.update(copy.deepcopy(p["schema"]))  # Swagger 2.0 non-body parameters carry the keywords themselves
    elif p["content"]:
        out["content"] = {p["content"]: {"schema": copy.deepcopy(p["schema"])}}
    else:
        out["schema"] = copy.deepcopy(p["schema"])
    return out


def build(spec: str, ops: list[dict], *, schemas: dict | None = None, security: dict | None = None,
          global_security: list | None = None) -> tuple[dict, dict]:
    """(document, expectation) for the neutral description."""
    param_components: dict[str, Any] = {}
    body_components: dict[str, Any] = {}
    param_prefix = "#/parameters/" if spec == "2.0" else "#/components/parameters/"

    def declare(p: dict) -> dict:
        obj = _param_object(spec, p)
        if not p["ref"]:
            return obj
        n = len(param_components)
        param_components[f"P{n}a"] = obj
        if p["ref"] == 1:
            return {"$ref": f"{param_prefix}P{n}a"}
        param_components[f"P{n}b"] = {"$ref": f"{param_prefix}P{n}a"}
        return {"$ref": f"{param_prefix}P{n}b"}

    paths: dict[str, Any] = {}
    expect_ops = []
    for op in ops:
        o: dict[str, Any] = {"responses": {"200": {"description": "OK"}}}
        if op["operationId"]:
            o["operationId"] = op["operationId"]
        plist = [declare(p) for p in op["params"]]
        body_ref = op.get("body_ref", 0)
        exp_bodies = None
        exp_form = None
        if op["bodies"] is not None:
            exp_bodies = [{"media_type": mt, "schema": copy.deepcopy(s)} for mt, s in op["bodies"]]
            if spec == "2.0":
                schema0 = op["bodies"][0][1]
                assert all(s == schema0 for _, s in op["bodies"]), "Swagger 2.0 has one body schema for all media types"
                bp = {"name": "body", "in": "body", "required": op["body_required"], "schema": copy.deepcopy(schema0)}
                if body_ref:
                    param_components["B1"] = bp
                    bp = {"$ref": "#/parameters/B1"}
                plist.append(bp)
                if op["consumes"] is not False:
                    o["consumes"] = [mt for mt, _ in op["bodies"]]
            else:
                rb: dict[str, Any] = {"content": {mt: {"schema": copy.deepcopy(s)} for mt, s in op["bodies"]}}
                if op["body_required"] is not None:
                    rb["required"] = op["body_required"]
                if body_ref:
                    body_components["B1"] = rb
                    rb = {"$ref": "#/components/requestBodies/B1"}
                    if body_ref == 2:
                        body_components["B2"] = rb
                        rb = {"$ref": "#/components/requestBodies/B2"}
                o["requestBody"] = rb
        if op["form"]:
            assert spec == "2.0"
            plist += [_param_object(spec, p) for p in op["form"]]
            if op["consumes"]:
                o["consumes"] = list(op["consumes"])
            exp_form = {"params": [{"name": p["name"], "required": bool(p["required"]), "schema": copy.deepcopy(p["schema"])}
                                   for p in op["form"]],
                        "media_types": list(op["consumes"]) if op["consumes"] else list(FORM_TYPES)}
        o["parameters"] = plist
        if op["security"] is not None:
            # ONE requirement object naming every scheme: all of them apply at once (a list of objects would be alternatives)
            o["security"] = [{name: [] for name in op["security"]}] if op["security"] else []
        item = paths.setdefault(op["path"], {})
        item[op["method"]] = o
        shared_objs = [declare(p) for p in op["shared"]]
        if shared_objs:
            item["parameters"] = shared_objs
        # effective inputs: the operation's own parameters, plus path-item ones not overridden by the same (name, in)
        own = {(p["name"], p["in"]) for p in op["params"]}
        effective = list(op["params"]) + [p for p in op["shared"] if (p["name"], p["in"]) not in own]
        exp_params = [{"name": p["name"], "in": p["in"], "required": bool(p["required"]) or p["in"] == "path",
                       "schema": copy.deepcopy(p["schema"]), "content_json": p["content"] == "application/json" and spec != "2.0"}
                      for p in effective]
        active = op["security"] if op["security"] is not None else [n for req in (global_security or []) for n in req]
        exp_sec = []
        for name in active:
            d = (security or {})[name]
            if d["type"] == "apiKey":
                exp_sec.append({"name": d["name"], "in": d["in"], "kind": "apiKey"})
            else:
                exp_sec.append({"name": "Authorization", "in": "header", "kind": d.get("scheme", "basic")})
        expect_ops.append({"path": op["path"], "method": op["method"], "params": exp_params, "bodies": exp_bodies,
                           "body_required": bool(op["body_required"]), "form": exp_form, "security": exp_sec,
                           "operationId": op["operationId"]})
    if spec == "2.0":
        doc: dict[str, Any] = {"swagger": "2.0", "info": {"title": "t", "version": "1"}, "paths": paths}
        if schemas:
            doc["definitions"] = copy.deepcopy(schemas)
        if param_components:
            doc["parameters"] = param_components
        if security:
            doc["securityDefinitions"] = copy.deepcopy(security)
    else:
        doc = {"openapi": SPEC_VERSIONS[spec], "info": {"title": "t", "version": "1"}, "paths": paths}
        comp: dict[str, Any] = {}
        if schemas:
            comp["schemas"] = copy.deepcopy(schemas)
        if param_components:
            comp["parameters"] = param_components
        if body_components:
            comp["requestBodies"] = body_components
        if security:
            comp["securitySchemes"] = copy.deepcopy(security)
        if comp:
            doc["components"] = comp
    if global_security is not None:
        doc["security"] = copy.deepcopy(global_security)
    return doc, {"ops": expect_ops}


def item(family: str, shape: str, spec: str, ops: list[dict], *, cfgs: list[dict] | None = None, d: int = 2,
         entry: str = "lookup", cfg_how: str = "both", liveness: bool = True, **kw: Any) -> dict:
    doc, expect = build(spec, ops, **kw)
    return {"kind": "extra", "family": family, "shape": shape, "spec": spec, "doc": doc, "expect": expect,
            "cfgs": copy.deepcopy(cfgs or [UTF8]), "d": d, "entry": entry, "cfg_how": cfg_how, "liveness": liveness}


def sref(spec: str, name: str) -> dict:
    return {"$ref": ("#/definitions/" if spec == "2.0" else "#/components/schemas/") + name}


def name_for(loc: str, base: str) -> str:
    return f"X-{base.upper()}" if loc == "header" else base


def locations(spec: str) -> tuple[str, ...]:
    return ("query", "header") if spec == "2.0" else ("query", "header", "cookie")


# -- families ------------------------------------------------------------------------------------------------------------

def multi_items() -> list[dict]:
    """TWO and THREE parameters in one location (required / optional mixes, both writing orders), several path parameters,
    one parameter in every location plus a body, the same name in every location."""
    out = []
    for spec in SPECS:
        for loc in locations(spec):
            a, b, c = name_for(loc, "a"), name_for(loc, "b"), name_for(loc, "c")
            for mix, (ra, rb) in {"req_req": (True, True), "req_opt": (True, False), "opt_opt": (False, False)}.items():
                ps = [P(a, loc, ra, INT), P(b, loc, rb, ENUM)]
                for order, plist in (("fwd", ps), ("rev", ps[::-1])):
                    out.append(item("multi", f"two_{mix}_{order}", spec, [OP(params=copy.deepcopy(plist))]))
            for mix, (ra, rb, rc) in {"req_opt_req": (True, False, True), "opt_opt_opt": (False, False, False),
                                       "req_req_req": (True, True, True)}.items():
                ps = [P(a, loc, ra, INT), P(b, loc, rb, ENUM), P(c, loc, rc, BOOL)]
                for order, plist in (("fwd", ps), ("rev", ps[::-1])):
                    if mix == "req_req_req" and order == "rev" and spec != "3.0":
                        continue
                    out.append(item("multi", f"three_{mix}_{order}", spec, [OP(params=copy.deepcopy(plist))]))
            # an unconstrained string next to a typed neighbour, under both string configurations
            plain = [P(a, loc, True, {"type": "string"}), P(b, loc, False, INT)]
            out.append(item("multi", "two_plain_string_fwd", spec, [OP(params=copy.deepcopy(plain))], cfgs=[UTF8, ASCII]))
            out.append(item("multi", "two_plain_string_rev", spec, [OP(params=copy.deepcopy(plain[::-1]))], cfgs=[ASCII]))
        # nothing declared at all: the one case without any value has to come out
        out.append(item("multi", "no_inputs", spec, [OP()]))
        two = [P("a", "path", True, INT), P("b", "path", True, ENUM)]
        out.append(item("multi", "path_two_fwd", spec, [OP(path="/t/{a}/{b}", params=copy.deepcopy(two))]))
        out.append(item("multi", "path_two_rev", spec, [OP(path="/t/{a}/{b}", params=copy.deepcopy(two[::-1]))]))
        three = two + [P("c", "path", True, SHORT)]
        out.append(item("multi", "path_three", spec, [OP(path="/t/{a}/{b}/{c}", params=copy.deepcopy(three))], cfgs=[UTF8, ASCII]))
        # one input in every location, plus a body
        for body_required in (True, False):
            ps = [P("a", "path", True, INT), P("q", "query", True, ENUM), P("X-H", "header", False, INT)]
            if spec != "2.0":
                ps.append(P("c", "cookie", True, BOOL))
            out.append(item("multi", f"all_locations_body_{'req' if body_required else 'opt'}", spec,
                            [OP(path="/t/{a}", method="post", params=ps, bodies=[("application/json", SHORT)], body_required=body_required)],
                            cfgs=[UTF8, ASCII]))
        # the same name in every location: four different parameters
        ps = [P("p", "path", True, INT), P("p", "query", True, ENUM), P("p", "header", True, BOOL)]
        if spec != "2.0":
            ps.append(P("p", "cookie", False, {"type": "integer", "maximum": 0}))
        out.append(item("multi", "same_name_all_locations", spec, [OP(path="/t/{p}", params=ps)]))
    return out


def media_items() -> list[dict]:
    """Request bodies with two media types (different schemas, both orders, required or not), media-type spellings, forms,
    Swagger 2.0 ``consumes`` lists and formData / ``type: file`` parameters."""
    out = []
    obj = {"type": "object", "properties": {"k": {"type": "string", "enum": ["x"]}}, "required": ["k"], "additionalProperties": False}
    for spec in ("3.0", "3.1"):
        pair = [("application/json", INT), ("text/plain", ENUM)]
        for order, bodies in (("fwd", pair), ("rev", pair[::-1])):
            for req in (True, False):
                out.append(item("media", f"two_types_{order}_{'req' if req else 'opt'}", spec,
                                [OP(method="post", bodies=copy.deepcopy(bodies), body_required=req)]))
        out.append(item("media", "json_and_xml", spec, [OP(method="post", bodies=[("application/xml", obj), ("application/json", INT)], body_required=True)]))
        out.append(item("media", "json_and_form", spec, [OP(method="post", bodies=[("application/json", INT), ("multipart/form-data", obj)], body_required=True)]))
        out.append(item("media", "required_key_absent", spec, [OP(method="post", bodies=[("application/json", INT)], body_required=None)]))
    for mt in ("Application/JSON", "application/json; charset=utf-8", "application/problem+json", "text/plain"):
        out.append(item("media", "spelling", "3.0", [OP(method="post", bodies=[(mt, ENUM)], body_required=True)]))
    out.append(item("media", "form_only", "3.0", [OP(method="post", bodies=[("multipart/form-data", obj)], body_required=True)]))
    out.append(item("media", "body_with_params", "3.0", [OP(method="post", params=[P("q", "query", True, INT)],
                                                            bodies=[("text/plain", ENUM), ("application/json", INT)], body_required=True)]))
    # Swagger 2.0: one body schema, several consumes entries; body without consumes
    for order, mts in (("fwd", ["application/json", "text/plain"]), ("rev", ["text/plain", "application/json"])):
        out.append(item("media", f"consumes_two_{order}", "2.0", [OP(method="post", bodies=[(mt, ENUM) for mt in mts], body_required=True)]))
    out.append(item("media", "body_without_consumes", "2.0", [OP(method="post", bodies=[("application/json", INT)], body_required=True, consumes=False)]))
    # formData
    f_req, g_opt = P("f", "formData", True, INT), P("g", "formData", False, ENUM)
    up = P("up", "formData", False, {"type": "file"})
    for label, consumes in (("none", None), ("multipart", ["multipart/form-data"]), ("urlencoded", ["application/x-www-form-urlencoded"]),
                            ("both_fwd", list(FORM_TYPES)), ("both_rev", FORM_TYPES[::-1])):
        out.append(item("media", f"form_{label}", "2.0", [OP(method="post", form=[copy.deepcopy(f_req), copy.deepcopy(g_opt)], consumes=consumes)]))
    out.append(item("media", "form_rev_order", "2.0", [OP(method="post", form=[copy.deepcopy(g_opt), copy.deepcopy(f_req)], consumes=["multipart/form-data"])]))
    out.append(item("media", "form_file", "2.0", [OP(method="post", form=[copy.deepcopy(f_req), copy.deepcopy(up)], consumes=["multipart/form-data"])]))
    out.append(item("media", "form_file_required", "2.0", [OP(method="post", form=[P("up", "formData", True, {"type": "file"})], consumes=["multipart/form-data"])]))
    out.append(item("media", "form_all_optional", "2.0", [OP(method="post", form=[copy.deepcopy(g_opt)], consumes=["multipart/form-data"])]))
    out.append(item("media", "form_with_query", "2.0", [OP(method="post", params=[P("q", "query", True, ENUM)], form=[copy.deepcopy(f_req)],
                                                           consumes=["application/x-www-form-urlencoded"])]))
    return out


def object_items() -> list[dict]:
    """readOnly properties wherever an object schema can appear (never sent, never demanded), writeOnly ones (ordinary
    request properties), with and without an explicit ``type: object``."""
    out = []
    for spec in SPECS:
        nullable = {"2.0": "x-nullable", "3.0": "nullable"}.get(spec)
        ro = {"type": "string", "readOnly": True}
        core = {"type": "object", "properties": {"a": dict(INT), "r": dict(ro)}, "required": ["a", "r"]}
        untyped = {k: v for k, v in copy.deepcopy(core).items() if k != "type"}
        shapes: dict[str, tuple[dict, dict | None]] = {
            "ro_no_type": (untyped, None),
            "ro_in_items": ({"type": "array", "minItems": 1, "maxItems": 2, "items": copy.deepcopy(core)}, None),
            "ro_in_items_no_type": ({"type": "array", "minItems": 1, "maxItems": 1, "items": copy.deepcopy(untyped)}, None),
            "ro_in_allOf": ({"allOf": [copy.deepcopy(core)]}, None),
            "ro_in_allOf_outer_type": ({"type": "object", "allOf": [copy.deepcopy(untyped)]}, None),
            "ro_in_additionalProperties": ({"type": "object", "minProperties": 1, "maxProperties": 1,
                                            "additionalProperties": copy.deepcopy(core)}, None),
            "ro_nested": ({"type": "object", "properties": {"n": copy.deepcopy(core)}, "required": ["n"]}, None),
            "ro_behind_ref": ({"type": "object", "properties": {"a": dict(INT), "r": sref(spec, "RO")}, "required": ["a", "r"]}, {"RO": dict(ro)}),
            "ro_object_behind_ref": (sref(spec, "Core"), {"Core": copy.deepcopy(core)}),
            "ro_closed_object": ({**copy.deepcopy(core), "additionalProperties": False}, None),
            "ro_only_property": ({"type": "object", "properties": {"r": dict(ro)}, "required": ["r"], "additionalProperties": False}, None),
            "ro_two_of_three": ({"type": "object", "properties": {"r": dict(ro), "a": dict(INT), "s": {"type": "integer", "readOnly": True}},
                                 "required": ["s", "a"], "additionalProperties": False}, None),
            "ro_false_required": ({"type": "object", "properties": {"a": dict(INT), "r": {"type": "string", "readOnly": False, "maxLength": 1}},
                                   "required": ["a", "r"], "additionalProperties": False}, None),
            "write_only_required": ({"type": "object", "properties": {"w": {"type": "string", "writeOnly": True, "maxLength": 1}},
                                     "required": ["w"], "additionalProperties": False}, None),
        }
        if nullable:
            shapes["ro_nullable_object"] = ({**copy.deepcopy(core), nullable: True}, None)
        if spec == "3.1":
            shapes["ro_type_list"] = ({**copy.deepcopy(core), "type": ["object", "null"]}, None)
        if spec != "2.0":
            shapes["ro_in_oneOf"] = ({"oneOf": [copy.deepcopy(core), {"type": "integer", "maximum": 0}]}, None)
        for shape, (schema, components) in shapes.items():
            if spec == "2.0" and shape == "write_only_required":
                continue  # writeOnly is not a Swagger 2.0 keyword
            out.append(item("objects", shape, spec, [OP(method="post", bodies=[("application/json", schema)], body_required=True)],
                            schemas=components))
    return out


def value_items() -> list[dict]:
    """Keyword combinations at their limits, and values that meet the configured string restrictions."""
    out = []

    def each(shape: str, spec: str, schema: dict, locs: tuple[str, ...], cfgs: list[dict] | None = None, liveness: bool = True,
             d: int = 2) -> None:
        for loc in locs:
            if loc == "body":
                ops = [OP(method="post", bodies=[("application/json", schema)], body_required=True)]
            else:
                ops = [OP(path="/t/{p}" if loc == "path" else "/t", params=[P(name_for(loc, "p"), loc, True, schema)])]
            out.append(item("values", shape, spec, ops, cfgs=cfgs, liveness=liveness, d=d))

    for spec in SPECS:
        body_q = ("query", "body")
        # string restrictions vs values named by the schema itself: the other enum member meets them
        each("enum_non_ascii_member", spec, {"type": "string", "enum": ["é", "a"]}, ("query", "header", "body"), [ASCII])
        each("enum_nul_member", spec, {"type": "string", "enum": ["a\x00", "a"]}, ("query", "body"), [ASCII])
        # a schema that names no type (any JSON value; the same as a media type without `schema`) under the string restrictions
        untyped_locs = ("body",) if spec == "2.0" else ("query", "body")
        each("untyped_empty", spec, {}, untyped_locs, [UTF8, ASCII], d=3)
        each("untyped_min_length", spec, {"minLength": 1}, untyped_locs, [UTF8, ASCII], d=3)
        # integer bounds written as floats
        each("integer_float_bounds", spec, {"type": "integer", "minimum": 0.5, "maximum": 2.5}, body_q)
        each("integer_float_bounds_equal", spec, {"type": "integer", "minimum": 1.0, "maximum": 1.0}, body_q)
        each("integer_float_multiple", spec, {"type": "integer", "minimum": 1, "maximum": 4, "multipleOf": 2.0}, body_q)
        # uniqueItems vs the number of available values
        items = {"type": "integer", "enum": [1, 2]}
        each("unique_enum_at_limit", spec, {"type": "array", "items": dict(items), "uniqueItems": True, "minItems": 2}, body_q)
        each("unique_enum_above_limit", spec, {"type": "array", "items": dict(items), "uniqueItems": True, "minItems": 3}, ("body",))
        each("unique_bool_max", spec, {"type": "array", "items": {"type": "boolean"}, "uniqueItems": True, "minItems": 1, "maxItems": 2}, body_q)
        # format next to length / pattern, exactly at the limit
        each("date_min_length", spec, {"type": "string", "format": "date", "minLength": 10}, body_q)
        each("date_max_length", spec, {"type": "string", "format": "date", "maxLength": 10}, ("query", "header", "body"), [ASCII])
        each("date_pattern", spec, {"type": "string", "format": "date", "pattern": "^2"}, body_q, liveness=False)
        each("uuid_lengths", spec, {"type": "string", "format": "uuid", "minLength": 36, "maxLength": 36}, body_q)
        each("byte_lengths", spec, {"type": "string", "format": "byte", "minLength": 4, "maxLength": 4}, body_q, [ASCII])
        # pattern x length one level down (the converter rewrites every level, not only the top one)
        for label, inner in (("unanchored", {"type": "string", "pattern": "a+", "maxLength": 1}),
                             ("anchored", {"type": "string", "pattern": "^a+$", "minLength": 2, "maxLength": 3}),
                             ("group", {"type": "string", "pattern": "^(?:ab)+$", "minLength": 2, "maxLength": 3})):
            each(f"nested_pattern_length_items_{label}", spec, {"type": "array", "minItems": 1, "maxItems": 1, "items": dict(inner)}, body_q, d=3)
            each(f"nested_pattern_length_property_{label}", spec, {"type": "object", "properties": {"s": dict(inner)}, "required": ["s"],
                                                                   "additionalProperties": False}, ("body",), d=3)
        # closed object with everything required
        each("closed_all_required", spec, {"type": "object", "properties": {"a": dict(INT), "b": dict(SHORT)}, "required": ["b", "a"],
                                           "additionalProperties": False, "minProperties": 2, "maxProperties": 2}, ("body",), [UTF8, ASCII])
    # nullable next to enum / inside combinators
    each("nullable_enum_with_null", "3.0", {"type": "string", "nullable": True, "enum": ["x", None]}, ("query", "body"))
    each("nullable_enum_without_null", "3.0", {"type": "string", "nullable": True, "enum": ["x", "y"]}, ("query", "body"))
    each("nullable_in_oneOf", "3.0", {"oneOf": [dict(INT), {"type": "string", "nullable": True, "maxLength": 1}]}, ("query", "body"))
    each("nullable_in_anyOf_items", "3.0", {"type": "array", "maxItems": 2, "items": {"anyOf": [{"type": "integer", "nullable": True, "minimum": 1}]}}, ("body",))
    each("nullable_property", "3.0", {"type": "object", "properties": {"a": {"type": "integer", "nullable": True, "minimum": 1}}, "required": ["a"],
                                      "additionalProperties": False}, ("body",))
    each("nullable_false_enum", "3.0", {"type": "integer", "nullable": False, "enum": [1, 2]}, ("query", "body"))
    each("x_nullable_integer", "2.0", {"type": "integer", "x-nullable": True, "minimum": 1}, ("query", "body"))
    each("x_nullable_property", "2.0", {"type": "object", "properties": {"a": {"type": "string", "x-nullable": True, "maxLength": 1}}, "required": ["a"],
                                        "additionalProperties": False}, ("body",))
    each("x_nullable_false", "2.0", {"type": "integer", "x-nullable": False, "minimum": 1}, ("query", "body"))
    each("type_list_enum", "3.1", {"type": ["string", "null"], "enum": ["x", None]}, ("query", "body"))
    each("type_list_in_oneOf", "3.1", {"oneOf": [dict(INT), {"type": ["string", "null"], "maxLength": 1}]}, ("query", "body"))
    # OpenAPI 3.1 spellings at the top level of a parameter schema
    each("const_string", "3.1", {"const": "x"}, ("query", "header", "body"))
    each("const_typed_integer", "3.1", {"type": "integer", "const": 2}, ("query", "path", "body"))
    each("exclusive_numeric_both", "3.1", {"type": "integer", "exclusiveMinimum": 0, "exclusiveMaximum": 2}, ("query", "header", "body"))
    each("exclusive_boolean_both", "3.0", {"type": "integer", "minimum": 0, "exclusiveMinimum": True, "maximum": 2, "exclusiveMaximum": True},
         ("query", "header", "body"))
    each("exclusive_boolean_both", "2.0", {"type": "integer", "minimum": 0, "exclusiveMinimum": True, "maximum": 2, "exclusiveMaximum": True},
         ("query", "header", "body"))
    return out


def declaration_items() -> list[dict]:
    """The other ways of declaring the same input: ``content`` instead of ``schema``, parameter-level keywords written with
    their neutral value, parameters / request bodies behind one or two references, recursive schemas, security parameters."""
    out = []
    obj = {"type": "object", "properties": {"k": dict(INT)}, "required": ["k"], "additionalProperties": False}
    for spec in ("3.0", "3.1"):
        for loc in ("query", "header", "cookie"):
            for label, schema in (("integer", INT), ("object", obj)):
                for req in (True, False):
                    if not req and (spec == "3.1" or label == "object"):
                        continue
                    out.append(item("declaration", f"content_json_{label}", spec,
                                    [OP(params=[P(name_for(loc, "p"), loc, req, schema, content="application/json")])]))
        out.append(item("declaration", "content_json_path", spec, [OP(path="/t/{p}", params=[P("p", "path", True, INT, content="application/json")])]))
        out.append(item("declaration", "content_next_to_schema_param", spec,
                        [OP(params=[P("p", "query", True, obj, content="application/json"), P("q", "query", True, ENUM)])]))
    arr = {"type": "array", "items": {"type": "integer", "minimum": 1, "maximum": 2}, "minItems": 1, "maxItems": 2}
    neutral3 = {"query": {"style": "form", "explode": True, "allowEmptyValue": False, "allowReserved": False, "deprecated": False},
                "header": {"style": "simple", "explode": False, "deprecated": False},
                "path": {"style": "simple", "explode": False, "deprecated": False},
                "cookie": {"style": "form", "explode": True, "deprecated": False}}
    for spec in SPECS:
        for loc in ("query", "header", "path", "cookie"):
            if spec == "2.0" and loc == "cookie":
                continue
            name = name_for(loc, "p")
            path = "/t/{p}" if loc == "path" else "/t"
            extra = neutral3[loc] if spec != "2.0" else ({"allowEmptyValue": False} if loc == "query" else {})
            out.append(item("declaration", "neutral_parameter_keywords", spec, [OP(path=path, params=[P(name, loc, True, INT, extra=dict(extra))])]))
            if loc != "cookie":
                extra_arr = dict(extra) if spec != "2.0" else {"collectionFormat": "csv"}
                out.append(item("declaration", "neutral_parameter_keywords_array", spec,
                                [OP(path=path, params=[P(name, loc, True, arr, extra=extra_arr)])]))
            if loc != "path":
                out.append(item("declaration", "required_key_absent", spec, [OP(params=[P(name, loc, None, ENUM), P(name_for(loc, "q"), loc, True, INT)])]))
        # parameters and request bodies behind references
        for depth in (1, 2):
            if spec == "2.0" and depth == 2:
                continue  # Swagger 2.0 reference objects point at the definition itself
            # (a Swagger 2.0 non-body parameter has no schema object that could be a reference itself)
            inner = dict(INT) if spec == "2.0" else sref(spec, "S")
            out.append(item("declaration", f"parameter_ref_{depth}", spec,
                            [OP(params=[P("q", "query", True, inner, ref=depth), P("X-H", "header", False, ENUM, ref=depth)])],
                            schemas={"S": dict(INT)}))
            out.append(item("declaration", f"shared_parameter_ref_{depth}", spec,
                            [OP(path="/t/{p}", params=[P("q", "query", True, ENUM)], shared=[P("p", "path", True, inner, ref=depth)])],
                            schemas={"S": dict(INT)}))
            out.append(item("declaration", f"body_ref_{depth}", spec,
                            [OP(method="post", params=[P("q", "query", True, ENUM, ref=1)], bodies=[("application/json", sref(spec, "S2"))],
                                body_required=True, body_ref=depth)],
                            schemas={"S2": sref(spec, "S"), "S": dict(INT)}))
        # recursive schemas
        node = {"type": "object", "properties": {"v": dict(INT), "next": sref(spec, "Node")}, "required": ["v"], "additionalProperties": False}
        tree = {"type": "object", "properties": {"v": dict(ENUM), "kids": {"type": "array", "maxItems": 2, "items": sref(spec, "Tree")}},
                "required": ["v"], "additionalProperties": False}
        out.append(item("declaration", "recursive_list", spec, [OP(method="post", bodies=[("application/json", sref(spec, "Node"))], body_required=True)],
                        schemas={"Node": node}))
        out.append(item("declaration", "recursive_tree", spec, [OP(method="post", bodies=[("application/json", sref(spec, "Tree"))], body_required=True)],
                        schemas={"Tree": tree}))
    # security parameters: next to a declared parameter of the same name, in a cookie, http schemes, document-level requirement
    for spec in ("3.0", "2.0"):
        keys = {"K1": {"type": "apiKey", "in": "header", "name": "X-Key"}, "K2": {"type": "apiKey", "in": "query", "name": "key"}}
        for on in (True, False):
            cfg = {**UTF8, "with_security_parameters": on}
            tag = "on" if on else "off"
            out.append(item("security", f"same_name_declared_{tag}", spec,
                            [OP(params=[P("key", "query", True, INT), P("X-Key", "header", True, INT)], security=["K1", "K2"])],
                            security=keys, cfgs=[cfg]))
            out.append(item("security", f"same_name_other_case_{tag}", spec,
                            [OP(params=[P("KEY", "query", True, INT)], security=["K1", "K2"])],  # query names are case-sensitive
                            security=keys, cfgs=[cfg]))
            out.append(item("security", f"same_name_other_location_{tag}", spec,
                            [OP(params=[P("X-Key", "query", True, INT), P("key", "header", True, INT)], security=["K1", "K2"])],
                            security=keys, cfgs=[cfg]))
            out.append(item("security", f"document_level_{tag}", spec, [OP(params=[P("q", "query", True, INT)])],
                            security=keys, global_security=[{"K1": [], "K2": []}], cfgs=[cfg]))
            out.append(item("security", f"document_level_removed_{tag}", spec, [OP(params=[P("q", "query", True, INT)], security=[])],
                            security=keys, global_security=[{"K1": []}], cfgs=[cfg]))
            out.append(item("security", f"only_one_required_{tag}", spec, [OP(params=[P("q", "query", False, INT)], security=["K2"])],
                            security=keys, cfgs=[cfg]))
        strict = [{**UTF8, "with_security_parameters": True}, {**ASCII, "with_security_parameters": True}]
        out.append(item("security", "api_key_strings", spec, [OP(security=["K1", "K2"])], security=keys, cfgs=strict))
        if spec == "3.0":
            schemes = {"B": {"type": "http", "scheme": "basic"}, "T": {"type": "http", "scheme": "bearer"},
                       "C": {"type": "apiKey", "in": "cookie", "name": "sid"}}
            out.append(item("security", "http_basic", spec, [OP(security=["B"])], security=schemes, cfgs=strict))
            out.append(item("security", "http_bearer", spec, [OP(security=["T"])], security=schemes, cfgs=strict))
            out.append(item("security", "cookie_api_key", spec, [OP(security=["C"])], security=schemes, cfgs=strict))
            out.append(item("security", "cookie_api_key_off", spec, [OP(params=[P("c", "cookie", True, INT)], security=["C"])], security=schemes,
                            cfgs=[{**UTF8, "with_security_parameters": False}]))
        else:
            out.append(item("security", "http_basic", spec, [OP(security=["B"])], security={"B": {"type": "basic"}}, cfgs=strict))
    return out


def entry_items() -> list[dict]:
    """The other ways to the same strategy, the configuration given per call or stored on the schema, and the same
    operation object asked twice (with the same and with another configuration)."""
    out = []
    keys = {"K2": {"type": "apiKey", "in": "query", "name": "key"}}

    def ops() -> list[dict]:
        return [OP(path="/t", method="post", params=[P("q", "query", True, SHORT), P("X-H", "header", True, SHORT)],
                   bodies=[("application/json", SHORT)], body_required=True, operationId="op", security=["K2"])]

    on = {**ASCII, "with_security_parameters": True}
    off = {**ASCII, "with_security_parameters": False}
    for spec in SPECS:
        entries = ("iter", "iter_cfg", "schema", "pathmap", "by_id", "by_ref") if spec == "3.0" else ("schema", "iter_cfg")
        for entry in entries:
            for how in ("stored", "call", "both"):
                if how == "both" and entry not in ("iter_cfg", "schema"):
                    continue
                # a configuration given only per call reaches the already built operation for strings only
                cfgs = [on] if how == "call" and entry != "iter_cfg" else [on, off]
                out.append(item("entry", f"{entry}_{how}", spec, ops(), security=keys, cfgs=cfgs, entry=entry, cfg_how=how))
        for how in ("stored", "call"):
            out.append(item("entry", f"lookup_{how}", spec, ops(), security=keys, cfgs=[on] if how == "call" else [on, off], cfg_how=how))
        # two operations behind schema.as_strategy(): every case belongs to one of them and is judged by its own declaration
        two = [OP(path="/t", method="get", params=[P("q", "query", True, INT)]),
               OP(path="/u", method="post", params=[P("X-H", "header", False, ENUM)], bodies=[("application/json", SHORT)], body_required=True),
               OP(path="/t", method="put", params=[P("q", "query", False, ENUM)], shared=[])]
        out.append(item("entry", "schema_three_operations", spec, two, cfgs=[ASCII], entry="schema", cfg_how="both"))
        # the same operation object asked again
        for loc in ("query", "header", "body"):
            if loc == "body":
                o = [OP(method="post", bodies=[("application/json", {"type": "string"})], body_required=True)]
            else:
                o = [OP(params=[P(name_for(loc, "p"), loc, True, {"type": "string"})])]
            if spec == "3.0" or loc == "query":
                out.append(item("entry", "same_operation_other_config", spec, o, cfgs=[UTF8, ASCII], entry="sequence", cfg_how="call"))
                out.append(item("entry", "same_operation_other_config", spec, o, cfgs=[ASCII, UTF8], entry="sequence", cfg_how="call"))
                out.append(item("entry", "same_operation_same_config", spec, o, cfgs=[ASCII, ASCII], entry="sequence", cfg_how="call"))
                # two configurations that differ in exactly ONE setting (a cache keyed on the other one cannot tell them apart)
                for x00 in (True, False):
                    a, b = {"allow_x00": x00, "codec": "utf-8"}, {"allow_x00": x00, "codec": "ascii"}
                    out.append(item("entry", "same_operation_codec_only_differs", spec, o, cfgs=[a, b], entry="sequence", cfg_how="call"))
                for codec in ("utf-8", "ascii"):
                    a, b = {"allow_x00": True, "codec": codec}, {"allow_x00": False, "codec": codec}
                    out.append(item("entry", "same_operation_x00_only_differs", spec, o, cfgs=[a, b], entry="sequence", cfg_how="call"))
        # one deterministic run each of the engine's fuzzing phase and of the test the pytest plugin builds
        for entry in ("engine", "pytest"):
            out.append(item("entry", entry, spec, ops(), security=keys, cfgs=[on], entry=entry, cfg_how="stored"))
    return out


def extra_items(tier: str) -> list[dict]:
    out = multi_items() + media_items() + object_items() + value_items() + declaration_items() + entry_items()
    if tier == "thorough":
        for it in out:
            if it["entry"] not in ("engine", "pytest"):
                it["d"] = max(it["d"], 3)
            if it["family"] in ("multi", "media", "objects", "values") and ASCII not in it["cfgs"]:
                it["cfgs"] = it["cfgs"] + [copy.deepcopy(ASCII)]
    return out
