"""Enumerators added by review round 2 of C16 (pure data, no schemathesis imports; the building and judging is in props/c16.py).

* ``SMALL_CONTENTS``: very small strings at the boundaries of what a hand-written emitter may treat specially (YAML indicators at the
  start of a scalar, words / numbers a plain scalar would resolve to another type, edge whitespace, CR, XML-significant text).  They
  are run "light": alone in the slot, metadata {generate, none} (coverage for the coverage slots), response present / absent, one
  interaction - against all five writers at once like every other content item.
* ``shape_families()``: value-independent *shapes* of a scenario.  A shape is ``{"name", "tag", "label"?, "exchanges": [spec, ...]}``;
  a spec describes one exchange (request, response or network error, recorded check results) with JSON-able values (bytes as hex).

Spec keys (all optional): ``method`` ``path`` ``query`` (list of pairs | None) ``req_headers`` (list of pairs) ``req_body``
(None | {"hex"} | {"form": [[k, v], ...]} | {"text"}) ``response`` (None = network error | {"status", "reason", "headers", "body"})
``checks`` (None = nothing recorded | [[name, "SUCCESS" | "FAILURE"], ...]) ``meta``.
"""

from __future__ import annotations

SMALL_CONTENTS: dict[str, str] = {
    "dash": "-",
    "space": " ",
    "true_word": "true",
    "num_0123": "0123",
    "num_1e3": "1e3",
    "trailing_space": "x ",
    "trailing_newline": "x\n",
    "leading_newline": "\nx",
    "cr": "\r",
    "crlf": "a\r\nb",
    "percent": "%",
    "star": "*",
    "amp": "&",
    "lt": "<",
    "cdata_end": "]]>",
}


def _hex(data: bytes) -> str:
    return data.hex()


JSON_CT = ["Content-Type", "application/json; charset=utf-8"]


def _resp(headers: list, body: bytes = b'{"r": 1}', status: int = 500, reason: str = "Internal Server Error") -> dict:
    return {"status": status, "reason": reason, "headers": headers, "body": _hex(body)}


NORMAL = {"response": _resp([JSON_CT, ["X-R", "v"]])}
ERROR = {"response": None, "checks": None}
UNCHECKED = {"response": _resp([JSON_CT, ["X-R", "v"]]), "checks": None}  # a response whose checks were not recorded


def content_type_shapes() -> list[dict]:
    """Response Content-Type (the one header the writers interpret: charset -> `encoding`, decoding of the body) x body.

    Only pairs where the declared charset (as `requests` derives it) can represent the body are listed - what "lossless" means
    when a server declares a charset its body contradicts is left open by the property.  Unknown codec names decode nothing, so
    they are paired with plain ASCII."""
    ascii_, utf8, empty, binary = b"plain", "hé€".encode("utf-8"), b"", b"\xff\xfe\x00"
    latin1 = "café".encode("latin-1")
    # valid UTF-8 whose characters all exist in latin-1: text decoded with the wrong one of the two codecs re-encodes to other bytes
    utf8_low = "hé".encode("utf-8")
    table: list[tuple[str, list | None, list[tuple[str, bytes]]]] = [
        ("absent", None, [("ascii", ascii_), ("utf8", utf8), ("empty", empty), ("binary", binary)]),
        ("empty_value", ["Content-Type", ""], [("ascii", ascii_), ("utf8", utf8), ("empty", empty)]),
        ("json_no_charset", ["Content-Type", "application/json"], [("ascii", b'{"a": 1}'), ("utf8", '{"a": "é"}'.encode()), ("empty", empty)]),
        # (requests derives ISO-8859-1 for text/* without charset; every byte string is latin-1 text, also one that happens to be valid UTF-8)
        ("text_no_charset", ["Content-Type", "text/plain"], [("ascii", ascii_), ("latin1", latin1), ("utf8", utf8), ("utf8_low", utf8_low), ("empty", empty)]),
        ("octet_stream", ["Content-Type", "application/octet-stream"], [("ascii", ascii_), ("binary", binary), ("empty", empty)]),
        ("charset_utf8", ["Content-Type", "text/plain; charset=utf-8"], [("utf8", utf8), ("binary", binary)]),
        ("charset_utf8_upper", ["CONTENT-TYPE", "TEXT/PLAIN; CHARSET=UTF-8"], [("utf8", utf8), ("empty", empty)]),
        ("charset_utf8_lower_name", ["content-type", "text/plain;charset=utf-8"], [("utf8", utf8)]),
        ("charset_utf8_quoted", ["Content-Type", 'text/plain; charset="utf-8"'], [("utf8", utf8)]),
        ("charset_latin1", ["Content-Type", "text/plain; charset=ISO-8859-1"], [("ascii", ascii_), ("latin1", latin1), ("utf8", utf8), ("utf8_low", utf8_low)]),
        ("charset_utf16", ["Content-Type", "text/plain; charset=utf-16"], [("utf16", "hé".encode("utf-16"))]),
        ("charset_empty", ["Content-Type", "text/plain; charset="], [("ascii", ascii_), ("utf8", utf8)]),
        ("charset_unknown", ["Content-Type", "text/plain; charset=zzz"], [("ascii", ascii_), ("empty", empty)]),
        ("charset_with_quote", ["Content-Type", "text/plain; charset=a'b"], [("ascii", ascii_)]),
        ("charset_with_space", ["Content-Type", "text/plain; charset=utf 8"], [("ascii", ascii_)]),
    ]
    out = []
    for tag, header, bodies in table:
        for body_name, body in bodies:
            headers = ([header] if header else []) + [["X-R", "v"]]
            out.append({"name": f"{tag}/{body_name}", "tag": tag, "exchanges": [{"response": _resp(headers, body)}]})
            # the same without any failing check: the JUnit/console path that renders the payload is not taken
            out.append({"name": f"{tag}/{body_name}/passing", "tag": tag,
                        "exchanges": [{"response": _resp(headers, body, 200, "OK"), "checks": [["not_a_server_error", "SUCCESS"]]}]})
    return out


def multi_header_shapes() -> list[dict]:
    """Two (three) values under one response header name; both orders; equal values; names differing in letter case."""
    variants = [
        ("two_values", [["Set-Cookie", "a=1"], ["Set-Cookie", "b=2"]]),
        ("two_values_reversed", [["Set-Cookie", "b=2"], ["Set-Cookie", "a=1"]]),
        ("equal_values", [["X-R", "v"], ["X-R", "v"]]),
        ("three_values", [["X-R", "1"], ["X-R", "2"], ["X-R", "3"]]),
        ("case_variant_names", [["X-R", "1"], ["x-r", "2"]]),
        ("first_value_empty", [["X-R", ""], ["X-R", "2"]]),
        ("two_names_twice", [["X-R", "1"], ["X-R", "2"], ["X-S", "3"], ["X-S", "4"]]),
    ]
    return [{"name": name, "tag": "response", "exchanges": [{"response": _resp([JSON_CT] + headers)}]} for name, headers in variants]


def sequence_shapes() -> list[dict]:
    """Orders / numbers of exchanges inside one scenario.  N = response + checks, E = network error, U = response without recorded
    checks.  The first version had N, E, NN and NE only."""
    letters = {"N": NORMAL, "E": ERROR, "U": UNCHECKED}
    words = ["U", "EN", "EE", "UN", "NU", "EU", "UE", "NEN", "ENE", "NNN", "EEN", "NUE", "ENENENENENEN", "NNNNNNNNNNNN"]
    return [{"name": w, "tag": "many" if len(w) > 3 else w, "exchanges": [dict(letters[ch]) for ch in w]} for w in words]


def check_list_shapes() -> list[dict]:
    """The list of check results recorded for one exchange: every length <= 2 over {SUCCESS, FAILURE} in both orders, plus a
    failure between two others, the same check name twice, and nothing recorded at all (`checks: []` cannot be recorded: the
    recorder creates the list with the first result)."""
    out = []
    for word in ["S", "F", "SS", "SF", "FS", "FF", "FSF", "SFS", "SSF", "FFS"]:
        checks = [[f"chk{idx}", "SUCCESS" if ch == "S" else "FAILURE"] for idx, ch in enumerate(word)]
        out.append({"name": word, "tag": word if len(word) < 3 else "three", "exchanges": [{**NORMAL, "checks": checks}]})
    out.append({"name": "same_name_F_then_S", "tag": "same_name", "exchanges": [{**NORMAL, "checks": [["chk", "FAILURE"], ["chk", "SUCCESS"]]}]})
    out.append({"name": "same_name_S_then_F", "tag": "same_name", "exchanges": [{**NORMAL, "checks": [["chk", "SUCCESS"], ["chk", "FAILURE"]]}]})
    # per-exchange lists in a two-exchange scenario: failing first / passing second and the other way round
    out.append({"name": "F_then_S_exchange", "tag": "two_exchanges",
                "exchanges": [{**NORMAL, "checks": [["chk0", "FAILURE"]]}, {**NORMAL, "checks": [["chk0", "SUCCESS"]]}]})
    out.append({"name": "S_then_F_exchange", "tag": "two_exchanges",
                "exchanges": [{**NORMAL, "checks": [["chk0", "SUCCESS"]]}, {**NORMAL, "checks": [["chk0", "FAILURE"]]}]})
    return out


def request_shapes() -> list[dict]:
    """Request-side shapes: no body / no Content-Type, a media type without a body, a `str` body (form encoding), methods, header-name
    letter case, query-string shapes (absent, blank value, repeated name, bare name)."""
    plain = [["X-T", "v"]]
    variants: list[tuple[str, str, dict]] = [
        ("get_no_body", "no_body", {"method": "GET", "path": "/a", "query": None, "req_headers": plain, "req_body": None}),
        ("get_with_query", "no_body", {"method": "GET", "path": "/a", "query": [["q", "1"]], "req_headers": plain, "req_body": None}),
        ("delete_no_headers", "no_body", {"method": "DELETE", "path": "/b", "query": None, "req_headers": [], "req_body": None}),
        # a response to HEAD carries no body on the wire, whatever the handler returns
        ("head", "no_body", {"method": "HEAD", "path": "/a", "query": None, "req_headers": plain, "req_body": None,
                             "response": _resp([JSON_CT, ["X-R", "v"]], b"")}),
        ("media_type_without_body", "no_body", {"method": "POST", "query": None, "req_headers": [["Content-Type", "application/json"]], "req_body": None}),
        ("body_without_media_type", "body", {"method": "POST", "req_headers": plain, "req_body": {"hex": _hex(b"raw")}}),
        ("form_str_body", "body", {"method": "POST", "req_headers": plain, "req_body": {"form": [["a", "b c"], ["d", "é"]]}}),
        ("text_str_body", "body", {"method": "PUT", "req_headers": [["Content-Type", "text/plain"]], "req_body": {"text": "hé"}}),
        ("binary_body", "body", {"method": "PUT", "req_headers": [["Content-Type", "application/octet-stream"]], "req_body": {"hex": _hex(b"\xff\x00\xfe")}}),
        ("lower_case_method", "method", {"method": "post"}),
        ("patch", "method", {"method": "PATCH"}),
        ("lower_case_content_type_name", "header_case", {"req_headers": [["content-type", "application/json"], ["x-t", "v"]]}),
        ("upper_case_content_type_name", "header_case", {"req_headers": [["CONTENT-TYPE", "application/json"], ["X-T", "v"]]}),
        ("query_blank_value", "query", {"query": [["q", ""]]}),
        ("query_repeated_name", "query", {"query": [["q", "1"], ["q", "2"]]}),
        ("query_two_names_reversed", "query", {"query": [["z", "1"], ["a", "2"]]}),
        ("query_encoded_chars", "query", {"query": [["q", "a&c=d"], ["k/?", "é"]]}),
        ("query_with_space", "query", {"query": [["q", "a b"]]}),
        ("query_name_letter_case", "query", {"query": [["Q", "1"], ["q", "2"]]}),
    ]
    out = []
    for name, tag, spec in variants:
        out.append({"name": name, "tag": tag, "exchanges": [{**NORMAL, **spec}]})
        out.append({"name": name + "/network_error", "tag": tag, "exchanges": [{**spec, **ERROR}]})
    return out


def shape_families() -> dict[str, list[dict]]:
    return {
        "resp_content_type": content_type_shapes(),
        "multi_header": multi_header_shapes(),
        "sequence": sequence_shapes(),
        "check_list": check_list_shapes(),
        "request": request_shapes(),
    }


def shape_items(chunk: int = 12) -> list[dict]:
    """Work items: (family, slice of its shapes) - small enough to spread over the workers."""
    out = []
    for family, shapes in shape_families().items():
        for start in range(0, len(shapes), chunk):
            out.append({"part": "shapes", "family": family, "start": start, "stop": min(start + chunk, len(shapes))})
    return out
