"""Hooks module for the *real* CLI: `SCHEMATHESIS_HOOKS=mc.cli_hooks PYTHONPATH=/verif st run <schema file> --url http://verif.local`.

Installs the in-process HTTP adapter of mc/httpseam.py (no socket) with an API scripted by a JSON file whose path
is in the environment variable VERIF_CLI_SCENARIO:

    {
      "host": "verif.local",                    # requests to this host (userinfo / port ignored) are answered in-process
      "log": "/path/requests.jsonl",            # every request that reached the adapter, one JSON object per line
      "curl_log": "/path/curl.jsonl",           # optional: `case.as_curl_command(...)` of every case, taken in `after_call`
      "routes": {"/fail": {"status": 500, "headers": [["Set-Cookie", "sid=..."]], "body": "{}",
                           "only_if": [{"in": "header"|"query"|"cookie", "name": "...", "min_len": 12}], "else_status": 200}},
      "default": {"status": 200, "headers": [], "body": "{}"},
      "sanitization": {"configure": {"keys_to_sanitize": [...], "sensitive_markers": [...], "replacement": "..."},
                       "extend": {"keys_to_sanitize": [...], "sensitive_markers": [...]}}    # public schemathesis.sanitization API
    }

Nothing of Schemathesis is replaced: the adapter is what `requests` hands the prepared request to; `after_call` and
`schemathesis.sanitization.configure/extend` are documented extension points.
"""

from __future__ import annotations

import json
import os
import threading
from http.cookies import SimpleCookie
from typing import Any
from urllib.parse import urlsplit

import requests

from mc import httpseam

ENV = "VERIF_CLI_SCENARIO"

_scenario: dict[str, Any] = {}
_lock = threading.Lock()


def _host_of(url: str) -> str:
    try:
        return (urlsplit(url).hostname or "").lower()
    except ValueError:
        return ""


def _request_part(exchange: httpseam.Exchange, where: str, name: str) -> str | None:
    if where == "header":
        for k, v in exchange.headers.items():
            if k.lower() == name.lower():
                return v
        return None
    if where == "query":
        for k, v in exchange.query:
            if k == name:
                return v
        return None
    if where == "cookie":
        for k, v in exchange.headers.items():
            if k.lower() == "cookie":
                jar = SimpleCookie()
                try:
                    jar.load(v)
                except Exception:  # noqa: BLE001
                    return None
                if name in jar:
                    return jar[name].value
        return None
    raise ValueError(where)


def _handler(exchange: httpseam.Exchange) -> tuple:
    route = _scenario.get("routes", {}).get(exchange.path) or _scenario.get("default") or {"status": 200}
    status = route.get("status", 200)
    conds = route.get("only_if") or []
    if isinstance(conds, dict):
        conds = [conds]
    for cond in conds:  # all conditions must hold
        value = _request_part(exchange, cond["in"], cond["name"])
        if value is None or len(value) < cond.get("min_len", 0):
            status = route.get("else_status", 200)
            break
    headers = [("Content-Type", "application/json"), *[(k, v) for k, v in route.get("headers", [])]]
    payload = route.get("body", "{}").encode("utf-8")
    _write(_scenario.get("log"), {"method": exchange.method, "url": exchange.url, "path": exchange.path,
                                    "query": exchange.query, "headers": exchange.headers,
                                    "body": None if exchange.body is None else exchange.body.decode("utf-8", "backslashreplace"),
                                    "status": status, "thread": exchange.thread})
    return status, headers, payload


def _write(path: str | None, record: dict) -> None:
    if not path:
        return
    with _lock, open(path, "a", encoding="utf-8") as fd:
        fd.write(json.dumps(record) + "\n")


def install(scenario: dict[str, Any]) -> None:
    """Mount the adapter for the scenario's host and apply its sanitisation configuration."""
    global _scenario
    _scenario = scenario
    host = scenario.get("host", "verif.local").lower()
    adapter = httpseam.InProcessAdapter(_handler, httpseam.Log())
    original = requests.Session.get_adapter

    def get_adapter(self: requests.Session, url: str) -> Any:
        if _host_of(url) == host:
            return adapter
        return original(self, url)

    requests.Session.get_adapter = get_adapter  # type: ignore[method-assign]

    san = scenario.get("sanitization") or {}
    if san:
        import schemathesis

        if san.get("configure"):
            schemathesis.sanitization.configure(**san["configure"])
        if san.get("extend"):
            schemathesis.sanitization.extend(**san["extend"])

    if scenario.get("curl_log"):
        import schemathesis

        @schemathesis.hook
        def after_call(context: Any, case: Any, response: Any) -> None:
            # the same call the engine makes for its code sample; recorded for every case, not only failing ones
            command = case.as_curl_command(headers=dict(response.request.headers), verify=response.verify)
            _write(scenario["curl_log"], {"path": case.path, "status": response.status_code, "curl": command})


if os.environ.get(ENV):
    with open(os.environ[ENV], encoding="utf-8") as _fd:
        install(json.load(_fd))
