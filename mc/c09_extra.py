"""C09 review round 2: enumerators of request SHAPES (pure data - no schemathesis import, no I/O).

A shape is a JSON-able description of one request: how the ``Case`` is built and what is given to ``call()`` on top of it.

    {"shape": <unique name>, "dim": <dimension>, "method": "POST",
     "case": {"headers": [[name, value], ...], "cookies": [[..]], "query": [[name, value-or-list], ...],
              "body": {"t": "str" | "bytes" | "json" | "obj", "v": ...}, "media_type": ...},     # every key optional
     "call": {"headers": [[name, value], ...], "cookies": [[..]], "auth": [user, password]},        # every key optional
     "facts": {...}}                                                                               # coarse facts for signatures

Mappings are written as lists of pairs so that the WRITING ORDER is part of the enumerated input ("obj" bodies too).
Dimensions (the property quantifies over "all cases of all operations: any method, ... headers and cookies ..., bodies ..."):

 * pair         two (three) headers / cookies / query parameters / form fields / JSON keys at once, both writing orders, a
                special character in one of them; list values (= a repeated name) in query and form
 * header_name  header names in unusual letter case; names that `requests` also sets by default (User-Agent, Accept,
                Accept-Encoding, Connection), Content-Type given explicitly next to a body, Authorization; each given by the
                case itself or per call (``call(headers=...)``, ``call(auth=...)``, ``call(cookies=...)``)
 * body_shape   the Python type of the payload (str / bytes / dict / list / number / bool) per media type, the empty containers,
                falsy JSON values, already serialised bytes, a media type without payload
"""

from __future__ import annotations

from typing import Any

# names of props.c09.CHARS; a slice of the shell / URL / cookie significant ones plus the empty string
SLICE = ["squote", "dquote", "space", "semicolon", "amp", "empty"]

# header names that `requests.utils.default_headers()` sets on every session (written down here, not read from requests)
REQUESTS_DEFAULT_NAMES = ["User-Agent", "Accept-Encoding", "Accept", "Connection"]

TEXT, JSON, FORM, OCTET = "text/plain", "application/json", "application/x-www-form-urlencoded", "application/octet-stream"


def _value(char: str, chars: dict[str, str]) -> str:
    # a header value must not start or end with a space (requests refuses to send it): put the space inside
    return "a a" if char == "space" else chars[char]


def _spell(name: str, how: str) -> str:
    return {"as_is": name, "lower": name.lower(), "upper": name.upper()}[how]


def pair_shapes(chars: dict[str, str]) -> list[dict]:
    out: list[dict] = []
    containers = {
        "headers": ("X-T", "X-U"), "cookies": ("ck", "c2"), "query": ("q", "r"), "form": ("f", "g"), "json": ("f", "g"),
    }
    for where, (n1, n2) in containers.items():
        for char in SLICE:
            v = _value(char, chars)
            for order in ("ab", "ba"):
                pairs = [[n1, v], [n2, "b"]] if order == "ab" else [[n2, "b"], [n1, v]]
                case: dict[str, Any]
                if where in ("form", "json"):
                    case = {"body": {"t": "obj", "v": pairs}, "media_type": FORM if where == "form" else JSON}
                else:
                    case = {where: pairs}
                out.append({"shape": f"pair:{where}:{char}:{order}", "dim": "pair", "method": "POST", "case": case,
                            "facts": {"where": where, "char": char, "order": order}})
    # a list value = the same name twice
    for where in ("query", "form"):
        for char in SLICE:
            v = _value(char, chars)
            for order in ("ab", "ba"):
                values = [v, "b"] if order == "ab" else ["b", v]
                if where == "query":
                    case = {"query": [["q", values], ["r", "c"]]}
                else:
                    case = {"body": {"t": "obj", "v": [["f", values], ["g", "c"]]}, "media_type": FORM}
                out.append({"shape": f"list:{where}:{char}:{order}", "dim": "pair", "method": "POST", "case": case,
                            "facts": {"where": where + "_list", "char": char, "order": order}})
    # one more element: three at once, both directions; the empty list; a list of one
    for order, names in (("abc", ["X-T", "X-U", "X-V"]), ("cba", ["X-V", "X-U", "X-T"])):
        out.append({"shape": f"three:headers:{order}", "dim": "pair", "method": "GET", "case": {"headers": [[n, "v" + n[-1]] for n in names]},
                    "facts": {"where": "headers", "count": 3, "order": order}})
    for order, names in (("abc", ["q", "r", "s"]), ("cba", ["s", "r", "q"])):
        out.append({"shape": f"three:query:{order}", "dim": "pair", "method": "GET", "case": {"query": [[n, "v " + n] for n in names]},
                    "facts": {"where": "query", "count": 3, "order": order}})
    for order, names in (("abc", ["ck", "c2", "c3"]), ("cba", ["c3", "c2", "ck"])):
        out.append({"shape": f"three:cookies:{order}", "dim": "pair", "method": "GET", "case": {"cookies": [[n, "v" + n[-1]] for n in names]},
                    "facts": {"where": "cookies", "count": 3, "order": order}})
    out.append({"shape": "list:query:none", "dim": "pair", "method": "GET", "case": {"query": [["q", []], ["r", "c"]]},
                "facts": {"where": "query_list", "count": 0}})
    out.append({"shape": "list:query:one", "dim": "pair", "method": "GET", "case": {"query": [["q", ["a b"]]]},
                "facts": {"where": "query_list", "count": 1}})
    out.append({"shape": "list:query:numbers", "dim": "pair", "method": "GET", "case": {"query": [["q", [1, 2]], ["r", True]]},
                "facts": {"where": "query_list", "count": 2, "values": "numbers"}})
    # one of each container together
    out.append({"shape": "mixed:all", "dim": "pair", "method": "POST",
                "case": {"headers": [["X-T", "h'1"]], "cookies": [["ck", "c 1"]], "query": [["q", "q&1"]], "body": {"t": "str", "v": "b\"1"}, "media_type": TEXT},
                "facts": {"where": "all"}})
    return out


def header_name_shapes() -> list[dict]:
    out: list[dict] = []
    named = [("X-T", "v 1"), ("Accept", "text/x-c09"), ("User-Agent", "c09/1 (x)"), ("Accept-Encoding", "identity"), ("Connection", "close"),
             ("Content-Type", "text/plain; charset=utf-8"), ("Authorization", "Basic dTpw")]
    for name, value in named:
        for source in ("case", "call"):
            for spelling in ("as_is", "lower", "upper"):
                spelled = _spell(name, spelling)
                shape: dict[str, Any] = {"shape": f"name:{name}:{source}:{spelling}", "dim": "header_name", "method": "POST", "case": {}, "call": {},
                                         "facts": {"name": name.lower(), "source": source, "spelling": spelling}}
                shape[source]["headers"] = [[spelled, value]]
                if name == "Content-Type":
                    shape["case"]["body"] = {"t": "str", "v": "x'y"}
                    shape["case"]["media_type"] = TEXT
                out.append(shape)
    # the same header in the case and per call, in two spellings (the call wins; exactly one header line goes out)
    for order, (n_case, n_call) in (("case_lower", ("x-t", "X-T")), ("call_lower", ("X-T", "x-t"))):
        out.append({"shape": f"name:both:{order}", "dim": "header_name", "method": "POST", "case": {"headers": [[n_case, "from-case"]]},
                    "call": {"headers": [[n_call, "from call"]]}, "facts": {"name": "x-t", "source": "both", "spelling": order}})
    # credentials given to call() instead of a header
    out.append({"shape": "auth:call:plain", "dim": "header_name", "method": "GET", "case": {}, "call": {"auth": ["u", "p"]},
                "facts": {"name": "authorization", "source": "call_auth"}})
    out.append({"shape": "auth:call:special", "dim": "header_name", "method": "POST", "case": {"query": [["q", "a b"]]}, "call": {"auth": ["u'1", "p w$"]},
                "facts": {"name": "authorization", "source": "call_auth", "value": "special"}})
    out.append({"shape": "cookies:call", "dim": "header_name", "method": "GET", "case": {}, "call": {"cookies": [["c2", "x y"]]},
                "facts": {"name": "cookie", "source": "call_cookies"}})
    out.append({"shape": "cookies:call+case", "dim": "header_name", "method": "GET", "case": {"cookies": [["ck", "a'b"]]}, "call": {"cookies": [["c2", "x y"]]},
                "facts": {"name": "cookie", "source": "both"}})
    return out


def body_shapes() -> list[dict]:
    out: list[dict] = []

    def add(name: str, body: dict | None, media_type: str, method: str = "POST", **facts: Any) -> None:
        case: dict[str, Any] = {"media_type": media_type}
        if body is not None:
            case["body"] = body
        if method != "POST":
            facts["method"] = method
        out.append({"shape": f"body:{name}", "dim": "body_shape", "method": method, "case": case, "facts": {"media": media_type.split("/")[1][:6], **facts}})

    # str vs bytes of the same text
    for label, text in (("quote", "a'b"), ("at", "@a"), ("lt", "<a"), ("newline", "a\nb\n"), ("empty", ""), ("equals", "a=b&c"), ("eacute", "é")):
        add(f"text:str:{label}", {"t": "str", "v": text}, TEXT, pytype="str", text=label)
        add(f"text:bytes:{label}", {"t": "bytes", "v": text}, TEXT, pytype="bytes", text=label)
    add("octet:bytes:text", {"t": "bytes", "v": "a'b\n"}, OCTET, pytype="bytes", text="quote")
    add("octet:bytes:at", {"t": "bytes", "v": "@a"}, OCTET, pytype="bytes", text="at")
    # JSON: every JSON type, the empty containers, falsy values, nesting, key order
    for label, value in (("empty_object", {}), ("empty_array", []), ("zero", 0), ("false", False), ("true", True), ("empty_string", ""), ("float", 1.5),
                         ("array_of_strings", ["it's", "a\"b", ""]), ("array_of_null", [None]), ("nested", {"f": {"g": [1, "x'y", None, {}]}}),
                         ("key_with_quote", {"it's": 1, "a b": "@"}), ("eacute", {"f": "é"})):
        add(f"json:{label}", {"t": "json", "v": value}, JSON, pytype=type(value).__name__, value=label)
    add("json:bytes", {"t": "bytes", "v": '{"f": "it\'s",\n "g": 1}'}, JSON, pytype="bytes", value="serialised")
    add("json:bytes:empty", {"t": "bytes", "v": ""}, JSON, pytype="bytes", value="empty")
    # urlencoded form: value types, already serialised bytes
    add("form:int", {"t": "obj", "v": [["f", 1], ["g", 0]]}, FORM, pytype="dict", value="numbers")
    add("form:bool_none", {"t": "obj", "v": [["f", True], ["g", None]]}, FORM, pytype="dict", value="bool_none")
    add("form:empty_string", {"t": "obj", "v": [["f", ""], ["g", ""]]}, FORM, pytype="dict", value="empty_strings")
    add("form:bytes", {"t": "bytes", "v": "f=a%20b&g=%27"}, FORM, pytype="bytes", value="serialised")
    add("form:name_special", {"t": "obj", "v": [["f g", "1"], ["h'", "2"]]}, FORM, pytype="dict", value="names")
    # a media type and no payload at all
    for media in (TEXT, JSON, FORM):
        add(f"nobody:{media.split('/')[1][:6]}", None, media, pytype="notset")
    # a body on the methods that seldom carry one
    for method in ("DELETE", "PATCH"):
        add(f"json:nested:{method}", {"t": "json", "v": {"f": ["x'y"]}}, JSON, method=method, pytype="dict", value="nested")
    return out


def shapes(chars: dict[str, str]) -> list[dict]:
    out = pair_shapes(chars) + header_name_shapes() + body_shapes()
    names = [s["shape"] for s in out]
    assert len(names) == len(set(names)), "shape names must be unique"
    return out
