"""C07, review round 2: enumerators and reference extensions that oracles/selection.py (frozen) does not have.

props/c07.py imports this module *in place of* oracles.selection (`from mc import c07_extra as ref`): every name of the
frozen reference is re-exported unchanged, and a filter set that contains none of the new atom shapes is judged by the
frozen code itself (`base.is_selected`).  Only sets with a new shape go through the transcription below, which is written
from the same sentence of the property ("at least one include filter, or there are none, and no exclude filter") plus the
documented rule for one call with several conditions (docs/python.rst: "all conditions within the same method call are
combined with the logical AND operator").  Nothing here imports schemathesis.

New atom shapes (JSON-able):
    {"pol": ..., "kind": "all", "parts": [<atom without "pol">, ...]}     one include()/exclude() call with several conditions
    {"pol": ..., "attr": ..., "kind": "regex", "value": ..., "flags": "i"} a pre-compiled re.Pattern (own flags) as the regex value
"""

from __future__ import annotations

import re
from dataclasses import dataclass
from typing import Any

from oracles import selection as base

# ---- unchanged names of the frozen reference
Reference = base.Reference
Op = base.Op
HTTP_METHODS = base.HTTP_METHODS
MISSING = base.MISSING
PREDICATES = base.PREDICATES
operations = base.operations
route = base.route
pointer_get = base.pointer_get


# --------------------------------------------------------------------------------------------------------------------
# extended atoms


def is_extended(atom: dict) -> bool:
    return atom["kind"] == "all" or "flags" in atom


def atom_id(atom: dict) -> str:
    if atom["kind"] == "all":
        return f"{atom['pol']}:all[" + " && ".join(atom_id({**p, "pol": atom["pol"]}).split(":", 1)[1] for p in atom["parts"]) + "]"
    if "flags" in atom:
        return base.atom_id(atom) + f":compiled/{atom['flags']}"
    return base.atom_id(atom)


def atom_matches(atom: dict, op: Any, *, raw_pointer: bool = False) -> bool:
    if atom["kind"] == "all":
        # one call, several conditions: every one of them has to hold
        return all(atom_matches({**part, "pol": atom["pol"]}, op, raw_pointer=raw_pointer) for part in atom["parts"])
    if "flags" in atom:
        assert atom["kind"] == "regex" and atom["flags"] == "i"
        actual = base._attribute(op, atom["attr"])
        if actual is None:
            return False
        values = actual if isinstance(actual, list) else [actual]
        return any(re.search(atom["value"], v, re.IGNORECASE) is not None for v in values)
    return base.atom_matches(atom, op, raw_pointer=raw_pointer)


def is_selected(atoms: list[dict], op: Any, *, raw_pointer: bool = False, conjoin_include_regex: bool = False) -> bool:
    if not any(is_extended(a) for a in atoms):
        return base.is_selected(atoms, op, raw_pointer=raw_pointer, conjoin_include_regex=conjoin_include_regex)
    assert not conjoin_include_regex  # that alternative reading belongs to CLI flags; extended atoms have no flags
    if any(atom_matches(a, op, raw_pointer=raw_pointer) for a in atoms if a["pol"] == "exclude"):
        return False
    includes = [a for a in atoms if a["pol"] == "include"]
    return not includes or any(atom_matches(a, op, raw_pointer=raw_pointer) for a in includes)


def reference(document: dict, atoms: list[dict], **reading: bool) -> base.Reference:
    if not any(is_extended(a) for a in atoms):
        return base.reference(document, atoms, **reading)
    ops = base.operations(document)
    strict = [op for op in ops if op.strict]
    chosen = [op.label for op in strict if is_selected(atoms, op, **reading)]
    chosen_set = set(chosen)
    links = [link for op in strict for link in op.links]
    transitions = sorted((l.source, l.status, l.name, l.target) for l in links if l.source in chosen_set and l.target in chosen_set)
    return base.Reference(selected=chosen, total=len(strict), links_total=len(links), transitions=transitions,
                          open_labels=[op.label for op in ops if not op.strict])


def _flat(atoms: list[dict]) -> list[dict]:
    out = []
    for a in atoms:
        if a["kind"] == "all":
            out.extend({**p, "pol": a["pol"]} for p in a["parts"])
        else:
            out.append(a)
    return out


def pointer_goes_through_reference(document: dict, atoms: list[dict]) -> bool:
    return base.pointer_goes_through_reference(document, [a for a in _flat(atoms) if a["kind"] == "expr"])


# --------------------------------------------------------------------------------------------------------------------
# the extra alphabet (OpenAPI universe of props/c07.py)


def _p(attr: str, kind: str, value: Any, **kw: Any) -> dict:
    return {"attr": attr, "kind": kind, "value": value, **kw}


def _all(pol: str, *parts: dict) -> dict:
    return {"pol": pol, "kind": "all", "parts": list(parts)}


_FUNC_GET_PP = {"kind": "func", "value": "get_with_path_parameter"}
_FUNC_NO_ID = {"kind": "func", "value": "without_operation_id"}
_EXPR_TIER1 = {"kind": "expr", "pointer": "/x-tier", "op": "==", "value": 1}

COMPOUND_ATOMS: list[dict] = [
    # keyword x keyword of different attributes, every kind of matcher on either side
    _all("include", _p("path", "value", "/users/{id}"), _p("method", "value", "get")),
    _all("include", _p("path", "regex", "^/items"), _p("method", "list", ["post", "Put"])),
    _all("include", _p("tag", "value", "a"), _p("operation_id", "regex", "^list")),
    _all("include", _p("path", "regex", "^/users"), _p("method", "value", "GET"), _p("tag", "list", ["a", "zzz"])),  # three conditions
    _all("exclude", _p("path", "value", "/users"), _p("method", "value", "POST")),
    _all("exclude", _p("tag", "value", "a"), _p("method", "regex", "^P")),
    _all("exclude", _p("name", "regex", "^GET"), _p("operation_id", "list", ["getItem", "getUser"])),
    # a matcher function / an expression function next to keywords in the same call
    _all("include", _FUNC_GET_PP, _p("path", "regex", "^/users")),
    _all("exclude", _FUNC_NO_ID, _p("method", "value", "delete")),
    _all("exclude", _EXPR_TIER1, _p("tag", "value", "a")),
]
SHAPE_ATOMS: list[dict] = [
    # regular expressions: escaped special characters, a bare substring, a space and a dot, pre-compiled with own flags
    {"pol": "include", **_p("path", "regex", r"\{id\}$")},
    {"pol": "exclude", **_p("path", "regex", "item")},
    {"pol": "exclude", **_p("name", "regex", r" /users/.")},
    {"pol": "include", **_p("tag", "regex", "^B$", flags="i")},
    {"pol": "exclude", **_p("operation_id", "regex", "user$", flags="i")},
    # a second value in a slot of the base alphabet (two values of one attribute, same kind, same polarity)
    {"pol": "include", **_p("path", "value", "/items/{item_id}")},
    {"pol": "exclude", **_p("method", "value", "get")},
    {"pol": "include", **_p("tag", "value", "b")},
    {"pol": "exclude", **_p("operation_id", "value", "getItem")},
]
EXTRA_ATOMS: list[dict] = COMPOUND_ATOMS + SHAPE_ATOMS

# base atoms (by id) every extra atom is paired with in the quick tier: one of every kind and polarity
CONTEXT_IDS = [
    "include:path:value:'/users'",
    "exclude:path:regex:'^/items'",
    "include:method:list:['post', 'Put']",
    "exclude:method:value:'DELETE'",
    "include:tag:value:'a'",
    "exclude:tag:list:['b', 'c']",
    "exclude:operation_id:list:['getItem', 'getUser']",
    "include:func:get_with_path_parameter",
    "exclude:deprecated",
    "include:expr:/x-tier != 2",
    "exclude:expr:/parameters/0/in == 'path'",
]


def extra_sets(n_base: int, base_ids: list[str], tier: str) -> list[list[int]]:
    """Index sets over base+extra atoms: every extra atom alone, with every context atom, and with every other compound
    (thorough: every other extra) atom."""
    extra = list(range(n_base, n_base + len(EXTRA_ATOMS)))
    context = [base_ids.index(i) for i in CONTEXT_IDS] if tier == "quick" else list(range(n_base))
    compound = extra[:len(COMPOUND_ATOMS)]
    out = [[e] for e in extra]
    out += [[c, e] for e in extra for c in context]
    others = compound if tier == "quick" else extra
    out += [[a, b] for i, a in enumerate(others) for b in others[i + 1:]]
    return out


def extra_traffic_sets(n_base: int, base_ids: list[str], tier: str) -> list[list[int]]:
    """Engine runs: every compound atom alone and two compound x opposite-polarity pairs (thorough: more)."""
    compound = list(range(n_base, n_base + len(COMPOUND_ATOMS)))
    out = [[e] for e in compound]
    pairs = [(1, "exclude:method:value:'DELETE'"), (5, "include:path:value:'/users'")]
    out += [[base_ids.index(cid), n_base + k] for k, cid in pairs]
    if tier != "quick":
        out += [[n_base + len(COMPOUND_ATOMS) + k] for k in range(len(SHAPE_ATOMS))]
    if tier != "quick":
        context = [base_ids.index(i) for i in CONTEXT_IDS]
        out += [[c, e] for e in compound for c in context if [c, e] not in out]
    return out


# --------------------------------------------------------------------------------------------------------------------
# exclude(deprecated=...) written together with other conditions in ONE call (OpenAPI universe)
#
# docs/python.rst documents `exclude(deprecated=True)` and "all conditions within the same method call are combined with the
# logical AND"; the text of the property does not say which of the two holds for `exclude(deprecated=True, path=...)`:
#   reading "and":      one filter  deprecated AND <the other conditions>
#   reading "separate": two filters deprecated ; <the other conditions>
# Either is accepted, anything else (e.g. the flag silently dropped, or everything excluded) is reported.
# `deprecated=False` is the neutral value: the call must behave exactly like the same call without it.

DEPRECATED_CALLS: list[dict] = [
    {"deprecated": False, "parts": [_p("path", "value", "/users/{id}")]},
    {"deprecated": False, "parts": [_FUNC_NO_ID]},
    {"deprecated": False, "parts": [_p("tag", "value", "a"), _p("method", "regex", "^P")]},
    {"deprecated": True, "parts": [_p("path", "value", "/users")]},  # (a path without deprecated operations: the readings and "flag lost" all differ)
    {"deprecated": True, "parts": [_p("method", "regex", "^P")]},
    {"deprecated": True, "parts": [_p("tag", "list", ["b", "c"])]},
    {"deprecated": True, "parts": [_p("name", "regex", "^DELETE")]},
    {"deprecated": True, "parts": [_FUNC_NO_ID]},
    {"deprecated": True, "parts": [_FUNC_GET_PP, _p("path", "regex", "^/users")]},
]
# filters already on the schema when the call is made (chained before it)
DEPRECATED_PREFIXES: list[list[dict]] = [
    [],
    [{"pol": "include", **_p("path", "list", ["/users/{id}", "/items"])}],
    [{"pol": "include", **_p("tag", "value", "a")}],
]


def deprecated_call_readings(prefix: list[dict], call: dict) -> dict[str, list[dict]]:
    """Atom sets (for `reference`) of every admissible reading of one exclude(deprecated=..., ...) call."""
    parts = call["parts"]
    rest = {"pol": "exclude", **parts[0]} if len(parts) == 1 else _all("exclude", *parts)
    if not call["deprecated"]:
        return {"neutral": [*prefix, rest]}
    return {
        "and": [*prefix, _all("exclude", {"kind": "deprecated"}, *parts)],
        "separate": [*prefix, {"pol": "exclude", "kind": "deprecated"}, rest],
    }


# --------------------------------------------------------------------------------------------------------------------
# GraphQL (docs/using/cli.md: "For GraphQL schemas, Schemathesis only supports filtration by the `name` property";
# docs/python.rst: the name is `OperationType.field`)

GQL_UNIVERSES: dict[str, dict] = {
    # root type -> fields (name, arguments, result); written out as SDL by gql_sdl()
    "QM": {"Query": [("getBooks", "", "[Book!]!"), ("getBook", "(id: Int!)", "Book")],
           "Mutation": [("addBook", "(title: String!)", "Book!"), ("removeBook", "(id: Int!)", "Boolean")]},
    "Q": {"Query": [("getBooks", "", "[Book!]!"), ("getBook", "(id: Int!)", "Book"), ("countBooks", "", "Int!")]},  # no Mutation type
}
GQL_ATOMS: list[dict] = [
    {"pol": "include", **_p("name", "value", "Query.getBooks")},
    {"pol": "include", **_p("name", "list", ["Query.getBook", "Mutation.addBook"])},
    {"pol": "include", **_p("name", "regex", "^Mutation")},
    {"pol": "include", **_p("name", "regex", "Books?$")},
    {"pol": "exclude", **_p("name", "value", "Mutation.removeBook")},
    {"pol": "exclude", **_p("name", "list", ["Query.getBooks", "Mutation.removeBook"])},
    {"pol": "exclude", **_p("name", "regex", "Book$")},
    {"pol": "exclude", **_p("name", "regex", r"^Query\.")},
    {"pol": "exclude", **_p("name", "regex", "Books?$")},  # the same filter as an include above
]


def gql_sdl(universe: str) -> str:
    lines = ["type Book { id: Int! title: String }"]
    for root, fields in GQL_UNIVERSES[universe].items():
        lines.append(f"type {root} {{ " + " ".join(f"{name}{args}: {result}" for name, args, result in fields) + " }")
    return "\n".join(lines) + "\n"


@dataclass
class GqlOp:
    root: str
    field_name: str
    tags: None = None
    operation_id: None = None

    @property
    def label(self) -> str:
        return f"{self.root}.{self.field_name}"


def gql_operations(universe: str) -> list[GqlOp]:
    return [GqlOp(root, name) for root, fields in GQL_UNIVERSES[universe].items() for name, _, _ in fields]


def gql_reference(universe: str, atoms: list[dict]) -> tuple[list[str], int]:
    """(labels of the selected operations, number of operations)."""
    assert all(a.get("attr") == "name" for a in atoms)
    ops = gql_operations(universe)
    return [op.label for op in ops if base.is_selected(atoms, op)], len(ops)


def gql_sets(tier: str) -> list[tuple[str, list[int]]]:
    import itertools

    n = len(GQL_ATOMS)
    depth = 2 if tier == "quick" else 3
    out: list[tuple[str, list[int]]] = []
    for k in range(depth + 1):
        out += [("QM", list(c)) for c in itertools.combinations(range(n), k)]
    out += [("Q", list(c)) for k in range(2) for c in itertools.combinations(range(n), k)]
    return out


def gql_traffic_sets(tier: str) -> list[tuple[str, list[int]]]:
    n = len(GQL_ATOMS)
    out: list[tuple[str, list[int]]] = [("QM", [i]) for i in (0, 1, 2, 4, 6, 7)] + [("Q", [6])]
    if tier != "quick":
        out += [("QM", [])] + [("QM", [i]) for i in (3, 5, 8)] + [("Q", [0])]
    if tier != "quick":
        out += [("QM", [i, j]) for i in range(n) for j in range(i + 1, n)]
    return out


def gql_root_fields(body: bytes | None) -> list[str] | None:
    """`Type.field` for every root-level field of the GraphQL document in a request body (graphql-core's parser, which is
    not part of schemathesis); None when the body is not a GraphQL request."""
    import json

    import graphql

    try:
        query = json.loads(body or b"")["query"]
        document = graphql.parse(query)
    except Exception:  # noqa: BLE001
        return None
    out = []
    for definition in document.definitions:
        operation = getattr(definition, "operation", None)
        if operation is None:
            return None  # fragments etc.: nothing this reference can attribute
        root = {"query": "Query", "mutation": "Mutation"}.get(operation.value)
        if root is None:
            return None
        for selection in definition.selection_set.selections:
            name = getattr(getattr(selection, "name", None), "value", None)
            if name is None:
                return None
            out.append(f"{root}.{name}")
    return out
