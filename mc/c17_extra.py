"""C17, review round 2: additional enumerators (families F8-F13 of props/c17.py) and the Swagger 2.0 ``formData`` supplement
to the example walker.

Own code, written from the OpenAPI texts and the wording of property C17; it does not import schemathesis.

Dimensions (each is inside the property's quantifier "all placements/combinations of examples"):

* F8  indirection: the Parameter Object / Request Body Object that carries the examples is written at the path-item level
      (shared parameter), behind a ``$ref`` (components.parameters / 2.0 ``#/parameters``, components.requestBodies), both, or is
      an operation-level parameter that overrides a shared one with the same (name, in);
* F9  identity: two parameters with the SAME name in different locations (a parameter is identified by name AND in);
* F10 counts: 3 and 4 examples on one slot, 1 vs 3, 3 vs 4, three parameters with (1,2,3), 4 parameter examples against 2+1 body
      examples over two media types in both writing orders;
* F11 values: falsy / empty example values (false, null, [], {}, "" as a whole JSON body and on properties, boolean parameters),
      and parameter values that contain characters with a meaning in URLs ("a%20b", "é?#");
* F12 Swagger 2.0 ``formData`` parameters with ``x-example`` / ``x-examples`` (urlencoded payload; every field is a body property);
* F13 ``example`` and ``examples`` both written on one object; an ``externalValue`` example next to ``value`` examples (in both
      writing orders; the fetch is cut off by the property module, no network).
"""

from __future__ import annotations

from typing import Any, Iterator

from oracles import examples_walker as walker

JSON = "application/json"
VND = "application/vnd.v+json"
FORM = "application/x-www-form-urlencoded"
TEXT = "text/plain"


def _p(loc: str, placement: str, vals: str, required: bool = True, **kw: Any) -> dict:
    return {"loc": loc, "placement": placement, "vals": vals, "required": required, **kw}


def _b(mt: str, placement: str, vals: str = "obj") -> dict:
    return {"mt": mt, "placement": placement, "vals": vals}


def _f(name: str, placement: str, vals: str, required: bool = True, **kw: Any) -> dict:
    return {"name": name, "placement": placement, "vals": vals, "required": required, **kw}


def extra_items(tier: str) -> Iterator[dict]:
    """Items as keyword dicts for props.c17.items()'s ``add``: family, spec, params, bodies, body_required + optional keys."""
    thorough = tier == "thorough"

    def item(family: str, spec: str, params: list[dict], bodies: list[dict], body_required: bool = True, **kw: Any) -> dict:
        return {"family": family, "spec": spec, "params": params, "bodies": bodies, "body_required": body_required, "extra": kw}

    # ---- F8: where the object that carries the examples is written
    for spec in ("3.0", "2.0"):
        pls = ["x-example", "x-examples2"] if spec == "2.0" else ["example", "examples2", "ref_value", "schema_example"]
        for at in ("shared", "ref", "shared_ref"):
            locs = ["query", "header", "path", "cookie"] if at == "shared" or thorough else ["query", "path"]
            for loc in locs:
                for pl in pls:
                    yield item("indirect_param", spec, [_p(loc, pl, "s_x" if loc != "query" else "i10", at=at)], [])
        two = "x-examples2" if spec == "2.0" else "examples2"
        one = "x-example" if spec == "2.0" else "example"
        yield item("indirect_param", spec, [_p("query", two, "s_x", at="shared"), _p("header", one, "i10")], [])
        yield item("indirect_param", spec, [_p("query", one, "i10"), _p("header", two, "s_x", at="shared")], [])
        yield item("indirect_param", spec, [_p("path", two, "s_x", at="shared"), _p("query", "none", "i10")], [])
        yield item("indirect_param", spec, [_p("query", two, "s_x", at="ref"), _p("header", one, "i10", at="shared_ref")], [])
        for loc in ("query", "header"):
            yield item("indirect_param", spec, [_p(loc, two, "s_x", at="overriding")], [])
    for pl in ("example", "examples2", "ref_value", "ref2", "prop1_req", "none"):
        yield item("indirect_body", "3.0", [], [_b(JSON, pl)], body_at="ref")
    for pl in ("examples2", "ref_value"):
        yield item("indirect_body", "3.0", [_p("query", "examples2", "i10")], [_b(JSON, pl)], body_at="ref")
        yield item("indirect_body", "3.0", [_p("query", "example", "i10", at="shared")], [_b(JSON, pl), _b(VND, "example", "mixed")], body_at="ref")
    for body_at in ("shared", "ref"):
        for pl in ("x-example", "x-examples2", "prop1_req"):
            yield item("indirect_body", "2.0", [], [_b(JSON, pl)], body_at=body_at)
        yield item("indirect_body", "2.0", [_p("query", "x-examples2", "i10")], [_b(JSON, "x-examples2")], body_at=body_at)

    # ---- F9: the same name in two locations
    pairs3 = [("query", "header"), ("header", "query"), ("path", "query"), ("query", "cookie")]
    combos3 = [("example", "examples2"), ("examples2", "example"), ("examples2", "examples1"), ("example", "example"),
               ("ref1", "examples1"), ("none", "examples2"), ("schema_example", "ref_value")]
    for l1, l2 in pairs3:
        for pl1, pl2 in combos3:
            yield item("same_name", "3.0", [_p(l1, pl1, "s_x", name="id"), _p(l2, pl2, "i10", name="id")], [])
    for l1, l2 in [("query", "header"), ("path", "query")]:
        for pl1, pl2 in [("x-example", "x-examples2"), ("x-examples2", "x-example"), ("x-example", "x-example"), ("none", "x-examples2")]:
            yield item("same_name", "2.0", [_p(l1, pl1, "s_x", name="id"), _p(l2, pl2, "i10", name="id")], [])

    # ---- F10: one more example / one more parameter
    for loc in ("query", "header", "path"):
        for pl in ("examples3", "examples4", "anyOf3"):
            yield item("counts", "3.0", [_p(loc, pl, "s_x")], [])
        yield item("counts", "2.0", [_p(loc, "x-examples3", "s_x")], [])
    by_count3 = {0: "none", 1: "example", 2: "examples2", 3: "examples3", 4: "examples4"}
    by_count2 = {0: "none", 1: "x-example", 2: "x-examples2", 3: "x-examples3"}
    for l1, l2 in [("query", "query"), ("query", "header"), ("path", "query")]:
        for c1, c2 in [(1, 3), (3, 1), (2, 3), (3, 4), (0, 3)]:
            yield item("counts", "3.0", [_p(l1, by_count3[c1], "s_x"), _p(l2, by_count3[c2], "i10")], [])
    for l1, l2 in [("query", "header"), ("path", "query")]:
        for c1, c2 in [(1, 3), (3, 1), (0, 3)]:
            yield item("counts", "2.0", [_p(l1, by_count2[c1], "s_x"), _p(l2, by_count2[c2], "i10")], [])
    for triple in [("query", "header", "cookie"), ("path", "query", "header")] + ([("query", "query", "query")] if thorough else []):
        for counts in [(1, 2, 3), (3, 1, 2), (2, 2, 1), (0, 1, 2)]:
            yield item("counts", "3.0", [_p(loc, by_count3[c], v) for loc, c, v in zip(triple, counts, ("s_x", "i10", "s_amp"))], [])
    yield item("counts", "3.0", [_p("query", by_count3[c], v) for c, v in zip((1, 2, 3), ("s_x", "i10", "s_amp"))], [])
    for counts in [(1, 2, 3), (0, 1, 2)]:
        yield item("counts", "2.0", [_p(loc, by_count2[c], v) for loc, c, v in zip(("query", "header", "path"), counts, ("s_x", "i10", "s_amp"))], [])
    two_bodies = [[_b(JSON, "examples2"), _b(VND, "example", "mixed")], [_b(VND, "example", "mixed"), _b(JSON, "examples2")],
                  [_b(FORM, "examples2"), _b(JSON, "example")], [_b(TEXT, "examples2"), _b(JSON, "examples2")]]
    for bodies in two_bodies:
        yield item("counts", "3.0", [_p("query", "examples4", "s_x")], bodies)
        yield item("counts", "3.0", [_p("query", "example", "i10"), _p("header", "examples3", "s_x")], bodies)
        yield item("counts", "3.0", [], bodies)
    for bpl in ("example", "examples2", "prop2_1", "examples3"):
        yield item("counts", "3.0", [_p("query", "examples3", "s_x")], [_b(JSON, bpl)])
    for bpl in ("x-example", "x-examples2", "prop2_1_req"):
        yield item("counts", "2.0", [_p("query", "x-examples3", "s_x")], [_b(JSON, bpl)])
    yield item("counts", "3.0", [], [_b(JSON, "examples3")])
    yield item("counts", "3.0", [_p("header", "example", "i10")], [_b(JSON, "examples3")])

    # ---- F11: values
    for loc in ("query", "header", "path", "cookie"):
        for pl in ("example", "examples2", "schema_example"):
            yield item("values", "3.0", [_p(loc, pl, "b_ft")], [])
            yield item("values", "3.0", [_p(loc, pl, "b_tf")], [])
        if loc != "cookie":
            for pl in ("x-example", "x-examples2"):
                yield item("values", "2.0", [_p(loc, pl, "b_ft")], [])
    for loc in ("path", "query"):
        for pl in ("example", "examples2", "schema_example", "ref_value", "anyOf2"):
            yield item("values", "3.0", [_p(loc, pl, "s_pct")], [])
            yield item("values", "3.0", [_p(loc, pl, "s_url")], [])
        for pl in ("x-example", "x-examples2"):
            yield item("values", "2.0", [_p(loc, pl, "s_pct")], [])
            yield item("values", "2.0", [_p(loc, pl, "s_url")], [])
    yield item("values", "3.0", [_p("path", "example", "s_pct"), _p("query", "none", "i10")], [])
    yield item("values", "3.0", [_p("path", "examples2", "s_url"), _p("path", "example", "s_pct")], [])
    for vals in ("falsy", "falsy2"):
        for pl in ("example", "examples2", "ref_value", "schema_example", "prop1", "prop1_req", "prop1_1", "prop2_1", "both", "anyOf2"):
            yield item("values", "3.0", [], [_b(JSON, pl, vals)], True)
        for pl in ("example", "examples2"):
            yield item("values", "3.0", [], [_b(JSON, pl, vals)], False)
            yield item("values", "3.0", [_p("query", "examples2", "i10")], [_b(JSON, pl, vals)], True)
        for pl in ("x-example", "x-examples2", "schema_example", "prop1_req", "prop1_1"):
            yield item("values", "2.0", [], [_b(JSON, pl, vals)], True)
        for pl in ("schema_examples2", "prop_examples2_1"):
            yield item("values", "3.1", [], [_b(JSON, pl, vals)], True)
        yield item("values", "3.0", [], [_b(VND, "examples2", vals)], True)

    # ---- F12: Swagger 2.0 formData parameters
    for pl in ("x-example", "x-examples2"):
        for vals in ("i01", "s_amp", "s_empty", "b_ft"):
            yield item("form_data", "2.0", [], [], form=[_f("f1", pl, vals)])
    fcount = {0: "none", 1: "x-example", 2: "x-examples2", 3: "x-examples3"}
    for c1, c2, r2 in [(1, 0, True), (1, 0, False), (0, 1, True), (2, 1, True), (1, 2, True), (2, 2, True), (0, 0, True), (2, 0, True), (3, 1, True)]:
        yield item("form_data", "2.0", [], [], form=[_f("f1", fcount[c1], "s_x"), _f("f2", fcount[c2], "i10", r2)])
    yield item("form_data", "2.0", [_p("query", "x-example", "i10")], [], form=[_f("f1", "x-examples2", "s_amp")])
    yield item("form_data", "2.0", [_p("query", "x-examples2", "i10")], [], form=[_f("f1", "x-example", "s_amp")])
    yield item("form_data", "2.0", [_p("query", "x-example", "i10")], [], form=[_f("f1", "none", "s_x")])
    yield item("form_data", "2.0", [_p("header", "x-examples3", "s_x")], [], form=[_f("f1", "x-example", "i01"), _f("f2", "x-examples2", "s_x")])
    yield item("form_data", "2.0", [], [], form=[_f("f1", "x-examples2", "s_x", at="shared"), _f("f2", "x-example", "i10")])
    yield item("form_data", "2.0", [], [], form=[_f("f1", "x-example", "s_x", at="ref"), _f("f2", "none", "i10")])

    # ---- F13: example + examples on one object; externalValue next to value
    for loc in ("query", "header", "path", "cookie"):
        yield item("both_keywords", "3.0", [_p(loc, "example_and_examples", "s_x")], [])
    for loc in ("query", "header"):
        yield item("both_keywords", "2.0", [_p(loc, "x_both", "s_x")], [])
        for pl in ("external_first", "external_last"):
            yield item("external_value", "3.0", [_p(loc, pl, "s_x")], [])
    yield item("both_keywords", "3.0", [_p("query", "example_and_examples", "i10"), _p("header", "examples2", "s_x")], [])
    for vals in ("obj", "mixed"):
        yield item("both_keywords", "3.0", [], [_b(JSON, "example_and_examples", vals)])
        yield item("both_keywords", "2.0", [], [_b(JSON, "x_both", vals)])
    for pl in ("external_first", "external_last"):
        yield item("external_value", "3.0", [], [_b(JSON, pl)])
        yield item("external_value", "3.0", [_p("query", pl, "i10")], [_b(JSON, "example")])


# ---------------------------------------------------------------------------------------------------------------------
# Swagger 2.0 formData: every formData parameter is one property of the (urlencoded) payload

_NOT_SCHEMA = ("name", "in", "required", "description", "x-example", "x-examples")


def _form_parameters(doc: dict, path_item: dict, op: dict) -> list[dict]:
    return [p for p in walker.effective_parameters(doc, path_item, op) if p.get("in") == "formData"]


def formdata_entries(doc: dict) -> list[dict]:
    """Entries in the walker's format for ``x-example`` / ``x-examples.{n}.value`` of Swagger 2.0 formData parameters."""
    if walker.spec_of(doc) != "2.0":
        return []
    out: list[dict] = []
    for path, method, path_item, op in walker.operations(doc):
        base = {"op": walker.label(path, method), "kind": "body", "media_type": None}
        for p in _form_parameters(doc, path_item, op):
            ptr = [["prop", p["name"]]]
            if "x-example" in p:
                out.append({**base, "ptr": ptr, "value": p["x-example"], "source": "formData.x-example"})
            named = p.get("x-examples")
            if isinstance(named, dict):
                for ex in named.values():
                    ex = walker.deref(doc, ex)
                    if isinstance(ex, dict) and "value" in ex:
                        out.append({**base, "ptr": ptr, "value": ex["value"], "source": "formData.x-examples.value"})
    return out


def formdata_body(doc: dict, path: str, method: str) -> dict | None:
    """The payload the formData parameters of an operation declare, in the shape of walker.declared_inputs()["body"]."""
    if walker.spec_of(doc) != "2.0":
        return None
    path_item = walker.deref(doc, doc["paths"][path])
    op = path_item[method]
    fields = _form_parameters(doc, path_item, op)
    if not fields:
        return None
    schema = {"type": "object",
              "properties": {p["name"]: {k: v for k, v in p.items() if k not in _NOT_SCHEMA} for p in fields},
              "required": [p["name"] for p in fields if p.get("required")]}
    mts = walker.consumes(doc, op) or [FORM]
    return {"required": bool(schema["required"]), "content": {mt: schema for mt in mts}}


def same_name_in_two_locations(declared_parameters: list[dict]) -> bool:
    seen: dict[str, set] = {}
    for p in declared_parameters:
        seen.setdefault(p["name"], set()).add(p["in"])
    return any(len(v) > 1 for v in seen.values())
