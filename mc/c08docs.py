"""E2 for C08: the OpenAPI document grammar (path items x methods x parameter levels x references x layouts) and an own
YAML emitter that deliberately leaves number-, boolean-, null- and timestamp-looking mapping keys and date-like string
scalars unquoted (that is how such documents are written by hand).

Everything is built from a small JSON-able ``spec`` so that a work item can be replayed from its JSON form.
"""

from __future__ import annotations

import copy
import json
import re
from typing import Any

# ---------------------------------------------------------------------------------------------------------------
# parameters

BASE = {"q": "query", "id": "path", "h": "header"}
LOC_CODE = {"q": "query", "h": "header", "p": "path", "c": "cookie"}

#: operation-level candidates: same (name, in) with a different schema / required flag, or same name elsewhere
#: ``q^``: the name in another letter case (`Q`), same location - a different parameter (query names are case-sensitive)
OWN_CODES_QUICK = ["q!sr", "q!s", "q!r", "q@h", "h!sr", "h@q", "id!s", "id@q", "q^"]
OWN_CODES_THOROUGH = OWN_CODES_QUICK + ["h!s", "h!r"]


def pdef(code: str, flavour: str = "main") -> dict:
    """Parameter definition for a code.  ``q`` = path-level flavour (string, required); ``q!s`` schema differs,
    ``q!r`` required flag differs, ``q!sr`` both, ``q@h`` same name in the header location.
    ``decoy`` = what a *different* document holds under the same pointer (used by the two-file layout)."""
    if code.endswith("^"):
        name = code[:-1]
        d = {"name": name.upper(), "in": BASE[name], "required": False, "schema": {"type": "integer"}}
    elif "@" in code:
        name, loc = code.split("@")
        d = {"name": name, "in": LOC_CODE[loc], "required": False, "schema": {"type": "integer"}}
    elif "!" in code:
        name, how = code.split("!")
        d = {"name": name, "in": BASE[name], "required": True, "schema": {"type": "string"}}
        if "s" in how:
            d["schema"] = {"type": "integer"}
        if "r" in how and BASE[name] != "path":
            d["required"] = False
    else:
        d = {"name": code, "in": BASE[code], "required": True, "schema": {"type": "string"}}
    if flavour == "decoy":
        d["schema"] = {"type": "boolean"} if "!" not in code and "@" not in code and "^" not in code else {"type": "number"}
        if d["in"] != "path":
            d["required"] = not d["required"]
    return d


def key_of(item: str, code: str) -> str:
    return f"{item}_{code}".replace("!", "_x").replace("@", "_at_").replace("^", "_up")


NODE = {"main": {"type": "object", "properties": {"child": {"$ref": None}, "v": {"type": "integer"}}, "required": ["v"]},
        "decoy": {"type": "object", "properties": {"child": {"$ref": None}, "v": {"type": "string"}}}}

SECURITY = {
    "none": None,
    # both schemes required together; "u" is defined but never required
    "hdr_basic": {"schemes": {"k": {"type": "apiKey", "in": "header", "name": "X-Key"}, "b": {"type": "http", "scheme": "basic"},
                              "u": {"type": "apiKey", "in": "cookie", "name": "sid"}},
                  "global": [{"k": [], "b": []}]},
    # the apiKey coincides with the documented parameter q@query
    "collide_bearer": {"schemes": {"k": {"type": "apiKey", "in": "query", "name": "q"}, "b": {"type": "http", "scheme": "bearer"},
                                   "u": {"type": "apiKey", "in": "cookie", "name": "sid"}},
                       "global": [{"k": [], "b": []}]},
    # no global requirement: only operations that ask for it get it
    "local_only": {"schemes": {"k": {"type": "apiKey", "in": "header", "name": "X-Key"}, "b": {"type": "http", "scheme": "basic"}},
                   "global": None},
}


class Builder:
    def __init__(self, spec: dict):
        self.spec = spec
        self.ext = spec.get("ext", "json")
        self.root_name = f"root.{self.ext}"
        self.sib_name = f"items.{self.ext}"
        self.root: dict[str, Any] = {"openapi": "3.0.2", "info": {"title": "t", "version": spec.get("version", "1.0.0")}, "paths": {}}
        self.sib: dict[str, Any] = {}
        self.collide = bool(spec.get("collide", True))
        self.used_sibling = False
        self.item_dicts: list[dict] = []

    # -- pointers --------------------------------------------------------------------------------------------
    def _container(self, file: str, kind: str) -> tuple[dict, str]:
        """(dict that holds components of ``kind`` in ``file``, pointer prefix)"""
        if file == self.root_name or self.collide:
            doc = self.root if file == self.root_name else self.sib
            return doc.setdefault("components", {}).setdefault(kind, {}), f"#/components/{kind}/"
        return self.sib.setdefault("defs", {}).setdefault(kind, {}), f"#/defs/{kind}/"

    def _register(self, file: str, kind: str, key: str, value: Any, decoy: Any = None, refs_to: str = "local") -> str:
        """Store a component and return the reference text to use from inside ``file``."""
        if file != self.root_name and refs_to == "root":
            holder, prefix = self._container(self.root_name, kind)
            holder[key] = value
            return f"{self.root_name}{prefix}{key}"
        holder, prefix = self._container(file, kind)
        holder[key] = value
        if file != self.root_name and self.collide and decoy is not None:
            # the root document holds something else under the very same pointer
            root_holder, _ = self._container(self.root_name, kind)
            root_holder.setdefault(key, decoy)
        return f"{prefix}{key}"

    def param_entry(self, file: str, item: str, code: str, depth: int, refs_to: str) -> dict:
        definition = pdef(code)
        if depth == 0:
            return definition
        key = key_of(item, code)
        ref = self._register(file, "parameters", key, definition, pdef(code, "decoy"), refs_to)
        if depth == 1:
            return {"$ref": ref}
        target_file = self.root_name if (file != self.root_name and refs_to == "root") else file
        inner = ref.split("#", 1)[1]
        alias = self._register(file, "parameters", key + "_alias", {"$ref": "#" + inner},
                               {"$ref": "#" + inner} if target_file != self.root_name else None, refs_to)
        return {"$ref": alias}

    def node_ref(self, file: str, refs_to: str) -> dict:
        main = copy.deepcopy(NODE["main"])
        decoy = copy.deepcopy(NODE["decoy"])
        # the recursive schema refers to itself with a pointer local to the file that holds it
        ref = self._register(file, "schemas", "Node", main, decoy, refs_to)
        local = "#" + ref.split("#", 1)[1]
        main["properties"]["child"]["$ref"] = local
        decoy["properties"]["child"]["$ref"] = local
        return {"$ref": ref}

    def body(self, file: str, kind: str, refs_to: str) -> dict | None:
        flat = {"type": "object", "properties": {"v": {"type": "integer"}}, "required": ["v"]}
        if kind == "none":
            return None
        if kind == "one":
            return {"required": True, "content": {"application/json": {"schema": flat}}}
        if kind == "two":
            return {"content": {"application/json": {"schema": flat}, "text/plain": {"schema": {"type": "string"}}}}
        if kind == "rec":
            return {"required": True, "content": {"application/json": {"schema": self.node_ref(file, refs_to)}}}
        if kind == "two_rec":
            return {"content": {"application/json": {"schema": self.node_ref(file, refs_to)},
                                "application/x-www-form-urlencoded": {"schema": flat}}}
        if kind == "ref":
            value = {"required": True, "content": {"application/json": {"schema": flat}, "text/plain": {"schema": {"type": "string"}}}}
            decoy = {"content": {"application/xml": {"schema": {"type": "boolean"}}}}
            return {"$ref": self._register(file, "requestBodies", "Body", value, decoy, refs_to)}
        if kind == "bad_schema_ref":
            return {"content": {"application/json": {"schema": {"$ref": "#/components/schemas/Missing"}}}}
        raise ValueError(kind)

    BAD = {
        "no_in": {"name": "z", "schema": {"type": "string"}},
        "schema_int": {"name": "z", "in": "query", "schema": 5},
        "schema_str": {"name": "z", "in": "query", "schema": "string"},
        "dangling": {"$ref": "#/components/parameters/missing"},
    }

    # -- assembly --------------------------------------------------------------------------------------------
    def build(self) -> tuple[str, dict[str, dict]]:
        spec = self.spec
        sec = SECURITY[spec.get("security", "none")]
        if sec is not None:
            self.root.setdefault("components", {})["securitySchemes"] = copy.deepcopy(sec["schemes"])
            if sec["global"] is not None:
                self.root["security"] = copy.deepcopy(sec["global"])
        for it in spec["items"]:
            name, path, place = it["name"], it["path"], it.get("place", "inline")
            refs_to = it.get("refs_to", "local")
            if place == "bad_ref_same":
                self.root["paths"][path] = {"$ref": "#/x-items/missing"}
                continue
            if place == "bad_ref_file":
                self.root["paths"][path] = {"$ref": f"missing.{self.ext}#/{name}"}
                continue
            file = self.sib_name if place == "sibling" else self.root_name
            item: dict[str, Any] = {}
            shared = [self.param_entry(file, name, c, it.get("shared_ref", 0), refs_to) for c in it.get("shared", [])]
            if it.get("bad_shared"):
                shared.append(copy.deepcopy(self.BAD[it["bad_shared"]]))
            if shared or it.get("empty_parameters"):
                item["parameters"] = shared
            for op in it["ops"]:
                definition: dict[str, Any] = {"operationId": f"{op['method']}{name}"}
                own = [self.param_entry(file, name, c, op.get("own_ref", 0), refs_to) for c in op.get("own", [])]
                if op.get("bad_own"):
                    own.append(copy.deepcopy(self.BAD[op["bad_own"]]))
                if own:
                    definition["parameters"] = own
                body = self.body(file, op.get("body", "none"), refs_to)
                if body is not None:
                    definition["requestBody"] = body
                if op.get("security") == "optout":
                    definition["security"] = []
                elif op.get("security") == "own":
                    definition["security"] = [{"k": []}]
                definition["responses"] = copy.deepcopy(spec.get("responses") or {"200": {"description": "ok"}, "404": {"description": "no"}})
                item[op["method"]] = definition
            self.item_dicts.append(item)
            if place == "inline":
                self.root["paths"][path] = item
            elif place == "same":
                self.root.setdefault("x-items", {})[name] = item
                self.root["paths"][path] = {"$ref": f"#/x-items/{name}"}
            elif place == "sibling":
                self.used_sibling = True
                self.sib[name] = item
                self.root["paths"][path] = {"$ref": f"{self.sib_name}#/{name}"}
            else:
                raise ValueError(place)
        tokens = spec.get("tokens")
        if tokens:
            self._tokens(tokens)
        files = {self.root_name: self.root}
        if self.used_sibling:
            files[self.sib_name] = self.sib
        return self.root_name, files

    def _tokens(self, tokens: dict) -> None:
        """Place YAML-sensitive tokens: ``keys`` become property names of the first body schema and of a component schema,
        ``scalars`` become enum members / examples of a query parameter of the first operation."""
        first_item = self.item_dicts[0]
        operation = next(v for k, v in first_item.items() if k in ("get", "post", "put"))
        keys = tokens.get("keys", [])
        if keys:
            props = {k: {"type": "boolean"} for k in keys}
            operation["requestBody"] = {"required": True, "content": {"application/json": {"schema": {
                "type": "object", "properties": props}}}}
            self.root.setdefault("components", {}).setdefault("schemas", {})["Tok"] = {"type": "object", "properties": copy.deepcopy(props)}
            for k in keys:
                if re.fullmatch(r"[1-5][0-9][0-9]", k):
                    operation["responses"][k] = {"description": "tok"}
        scalars = tokens.get("scalars", [])
        if scalars:
            operation.setdefault("parameters", []).append({
                "name": "d", "in": "query", "required": True,
                "schema": {"type": "string", "enum": list(scalars), "example": scalars[0]}})
        if tokens.get("open_scalars"):
            # bare 12:30:00 is a base-60 integer in YAML 1.1: kept out of the operations, only counted
            self.root["x-open"] = {"times": list(tokens["open_scalars"])}
        if tokens.get("version"):
            self.root["info"]["version"] = tokens["version"]


def build(spec: dict) -> tuple[str, dict[str, dict]]:
    return Builder(copy.deepcopy(spec)).build()


# ---------------------------------------------------------------------------------------------------------------
# own YAML emitter

#: keys that are written bare: identifiers, paths, media types, status codes, on/off/yes/no, dates, times, 1.5, 0x10 ...
_PLAIN_KEY = re.compile(r"^[A-Za-z0-9_~.$/+-][A-Za-z0-9_~.$/+:-]*$")
_DATE_LIKE = re.compile(r"^\d{4}-\d{1,2}-\d{1,2}([Tt ]\d{1,2}:\d{2}:\d{2}(\.\d+)?( ?(Z|[-+]\d{1,2}(:\d{2})?))?)?$")
_TIME_LIKE = re.compile(r"^\d{1,2}:\d{2}(:\d{2})?$")
_WORD = re.compile(r"^[A-Za-z_/][A-Za-z0-9_/.+-]*$")
_YAML11_SPECIAL = {"y", "n", "yes", "no", "on", "off", "true", "false", "null", "~", ""}


def is_date_like(s: str) -> bool:
    return bool(_DATE_LIKE.match(s))


def is_time_like(s: str) -> bool:
    return bool(_TIME_LIKE.match(s))


def _key(k: str) -> str:
    if _PLAIN_KEY.match(k) and not k.endswith(":"):
        return k
    return json.dumps(k)


def _scalar(v: Any) -> str:
    if v is None:
        return "null"
    if v is True:
        return "true"
    if v is False:
        return "false"
    if isinstance(v, (int, float)):
        return json.dumps(v)
    assert isinstance(v, str), v
    if is_date_like(v) or is_time_like(v):
        return v  # deliberately bare
    if _WORD.match(v) and v.lower() not in _YAML11_SPECIAL:
        return v
    return json.dumps(v)


def emit_yaml(value: Any, indent: int = 0) -> str:
    pad = " " * indent
    if isinstance(value, dict):
        if not value:
            return pad + "{}\n"
        out = []
        for k, v in value.items():
            if isinstance(v, (dict, list)) and v:
                out.append(f"{pad}{_key(k)}:\n" + emit_yaml(v, indent + 2))
            elif isinstance(v, dict):
                out.append(f"{pad}{_key(k)}: {{}}\n")
            elif isinstance(v, list):
                out.append(f"{pad}{_key(k)}: []\n")
            else:
                out.append(f"{pad}{_key(k)}: {_scalar(v)}\n")
        return "".join(out)
    if isinstance(value, list):
        if not value:
            return pad + "[]\n"
        out = []
        for v in value:
            if isinstance(v, (dict, list)) and v:
                out.append(f"{pad}-\n" + emit_yaml(v, indent + 2))
            elif isinstance(v, dict):
                out.append(f"{pad}- {{}}\n")
            elif isinstance(v, list):
                out.append(f"{pad}- []\n")
            else:
                out.append(f"{pad}- {_scalar(v)}\n")
        return "".join(out)
    return pad + _scalar(value) + "\n"


def stringified(value: Any) -> Any:
    """What a resolver-free YAML reader (every scalar a string) must see for ``emit_yaml(value)``: emitter self-check."""
    if isinstance(value, dict):
        return {str(k): stringified(v) for k, v in value.items()}
    if isinstance(value, list):
        return [stringified(v) for v in value]
    if value is None:
        return "null"
    if value is True:
        return "true"
    if value is False:
        return "false"
    if isinstance(value, (int, float)):
        return json.dumps(value)
    return value


def bare_time_scalars(value: Any) -> bool:
    """Whether the emitter wrote a bare ``12:30:00``-style *scalar* (YAML 1.1 reads those as base-60 integers;
    the property speaks about dates only, so such documents are not compared for raw equality)."""
    if isinstance(value, dict):
        return any(bare_time_scalars(v) for v in value.values())
    if isinstance(value, list):
        return any(bare_time_scalars(v) for v in value)
    return isinstance(value, str) and is_time_like(value)
