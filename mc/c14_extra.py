"""C14, review round 2: further enumerators for the credentials/overrides check (the oracle stays in props/c14.py style: a
transcription of the property text, it never asks the code under test what it should have sent).

New work-item kinds (all judged by `judge`):
  a2  real engine run on DOC / DOC2 with more configuration shapes: atom pairs that meet in one container, both generation modes,
      every built-in check switched on (so `ignored_auth` derives its probes), a document with security schemes and with a
      parameter of the overridden name declared in ANOTHER location / not at all / on an operation without parameters,
      `with_security_parameters` off, 2 workers, letter-case variants of header names, more ways to configure an auth provider.
  t   the Python API: a user test function decorated with `schema.auth(...)` (test scope, apply_to / skip_for / both),
      `schema.override(...)`, `case.call(headers=...)`, sent through the requests, WSGI and ASGI transports.
  g   a GraphQL schema through the engine.
Provider `get` calls are logged per cache key: a caching provider may fetch at most once per key during one (sub-second) run.
"""

from __future__ import annotations

import base64
import copy
from typing import Any

from mc import engine, httpseam
from mc.runner import Result

OK = {"200": {"description": "OK"}}
BASIC_VALUE = "Basic " + base64.b64encode(b"user:pw").decode()


def doc1() -> dict:
    from props import c14

    return c14.DOC


def doc2() -> dict:
    """DOC plus: two security schemes, the overridden names declared in another location, an operation without parameters."""
    doc = copy.deepcopy(doc1())
    doc["components"] = {"securitySchemes": {"ApiKey": {"type": "apiKey", "in": "header", "name": "X-Key"},
                                             "Basic": {"type": "http", "scheme": "basic"}}}
    doc["paths"]["/users"]["post"]["security"] = [{"ApiKey": []}]
    doc["paths"]["/users/{id}"]["get"]["security"] = [{"ApiKey": []}]
    doc["paths"]["/b"] = {"get": {"security": [{"Basic": []}], "parameters": [
        {"name": "q", "in": "header", "schema": {"type": "string"}},
        {"name": "X-H", "in": "query", "schema": {"type": "string"}}], "responses": OK}}
    doc["paths"]["/n"] = {"get": {"responses": OK}}
    return doc


def doc3(order: str) -> dict:
    """DOC plus an operation that declares TWO parameters in every location (both writing orders of the parameter list):
    several configured overrides then meet in one container of one operation."""
    doc = copy.deepcopy(doc1())
    params = [
        {"name": "id", "in": "path", "required": True, "schema": {"type": "integer", "example": 5}},
        {"name": "id2", "in": "path", "required": True, "schema": {"type": "integer", "example": 8}},
        {"name": "q", "in": "query", "required": True, "schema": {"type": "integer", "example": 3}},
        {"name": "q2", "in": "query", "schema": {"type": "integer", "example": 9}},
        {"name": "X-H", "in": "header", "schema": {"type": "string", "example": "gen"}},
        {"name": "X-H2", "in": "header", "required": True, "schema": {"type": "string", "example": "gen2"}},
        {"name": "c", "in": "cookie", "schema": {"type": "string", "example": "gen"}},
        {"name": "c2", "in": "cookie", "schema": {"type": "string", "example": "gen2"}},
    ]
    doc["paths"]["/two/{id}/{id2}"] = {"get": {"parameters": params if order == "fwd" else params[::-1], "responses": OK}}
    return doc


OPS1 = {
    "GET /r/{id}": {"query": {"q"}, "headers": {"X-H"}, "cookies": {"c"}, "path_parameters": {"id"}},
    "GET /plain": {"query": {"z"}, "headers": set(), "cookies": set(), "path_parameters": set()},
    "POST /users": {"query": set(), "headers": set(), "cookies": set(), "path_parameters": set()},
    "GET /users/{id}": {"query": {"q"}, "headers": set(), "cookies": set(), "path_parameters": {"id"}},
}
OPS2 = {**OPS1,
        "GET /b": {"query": {"X-H"}, "headers": {"q"}, "cookies": set(), "path_parameters": set()},
        "GET /n": {"query": set(), "headers": set(), "cookies": set(), "path_parameters": set()}}
OPS3 = {**OPS1,
        "GET /two/{id}/{id2}": {"query": {"q", "q2"}, "headers": {"X-H", "X-H2"}, "cookies": {"c", "c2"},
                                "path_parameters": {"id", "id2"}, "template": "/two/{id}/{id2}"}}
SECURED = {"POST /users", "GET /users/{id}", "GET /b"}
GQL_OPS = {"Query.getBooks": {"query": set(), "headers": set(), "cookies": set(), "path_parameters": set()},
           "Mutation.addBook": {"query": set(), "headers": set(), "cookies": set(), "path_parameters": set()}}
SDL = "type Query { getBooks(n: Int): [Book!]! }\ntype Mutation { addBook(title: String!): Book! }\ntype Book { title: String! }\n"

# kind header/auth/override/provider as in props/c14.py; new: call_header (Python API), provider options
#   filters: list of [apply_to|skip_for, {path|method|name: value}]   refresh: "default" | None | 0   requests_auth: True
ATOMS2: dict[str, dict] = {
    "header_key": {"kind": "header", "name": "X-Key", "value": "U3"},
    "header_key_lower": {"kind": "header", "name": "x-key", "value": "U3"},
    "header_lower_same_as_param": {"kind": "header", "name": "x-h", "value": "U2"},
    "set_header_lower": {"kind": "override", "location": "headers", "name": "x-h", "value": "U5"},
    "set_query_undeclared": {"kind": "override", "location": "query", "name": "nope", "value": "1"},
    "set_cookie_undeclared": {"kind": "override", "location": "cookies", "name": "nope", "value": "1"},
    "set_query2": {"kind": "override", "location": "query", "name": "q2", "value": "42"},
    "set_header2": {"kind": "override", "location": "headers", "name": "X-H2", "value": "U52"},
    "set_cookie2": {"kind": "override", "location": "cookies", "name": "c2", "value": "U62"},
    "set_path2": {"kind": "override", "location": "path_parameters", "name": "id2", "value": "78"},
    "provider_key": {"kind": "provider", "scope": "schema", "header": "X-Key", "value": "U8", "filters": []},
    "provider_plain": {"kind": "provider", "scope": "schema", "header": "X-Token", "value": "U8", "filters": []},
    "provider_uncached": {"kind": "provider", "scope": "schema", "header": "X-Token", "value": "U8", "filters": [], "refresh": None},
    "provider_refresh_0": {"kind": "provider", "scope": "schema", "header": "X-Token", "value": "U8", "filters": [], "refresh": 0},
    "provider_keyed": {"kind": "provider", "scope": "schema", "header": "X-Token", "value": "U8", "filters": [], "keyed": True},
    "provider_both_filters": {"kind": "provider", "scope": "schema", "header": "X-Token", "value": "U8",
                              "filters": [["apply_to", {"method": "GET"}], ["skip_for", {"path": "/plain"}]]},
    "provider_two_apply": {"kind": "provider", "scope": "schema", "header": "X-Token", "value": "U8",
                           "filters": [["apply_to", {"path": "/plain"}], ["apply_to", {"path": "/users"}]]},
    "provider_skip_method": {"kind": "provider", "scope": "schema", "header": "X-Token", "value": "U8",
                             "filters": [["skip_for", {"method": "post"}]]},
    "provider_requests": {"kind": "provider", "scope": "schema", "requests_auth": True, "header": "Authorization",
                          "value": BASIC_VALUE, "filters": []},
    "provider_requests_apply_to": {"kind": "provider", "scope": "schema", "requests_auth": True, "header": "Authorization",
                                   "value": BASIC_VALUE, "filters": [["apply_to", {"path": "/plain"}]]},
    "provider_requests_skip_for": {"kind": "provider", "scope": "schema", "requests_auth": True, "header": "Authorization",
                                   "value": BASIC_VALUE, "filters": [["skip_for", {"path": "/plain"}]]},
    "global_plain": {"kind": "provider", "scope": "global", "header": "X-Global", "value": "U10", "filters": []},
    "global_skip_for": {"kind": "provider", "scope": "global", "header": "X-Global", "value": "U10",
                        "filters": [["skip_for", {"path": "/plain"}]]},
    # test scope (Python API only)
    "test_auth": {"kind": "provider", "scope": "test", "header": "X-Token", "value": "U8", "filters": []},
    "test_auth_keyed": {"kind": "provider", "scope": "test", "header": "X-Token", "value": "U8", "filters": [], "keyed": True},
    "test_auth_apply_to": {"kind": "provider", "scope": "test", "header": "X-Token", "value": "U8",
                           "filters": [["apply_to", {"path": "/plain"}]]},
    "test_auth_skip_for": {"kind": "provider", "scope": "test", "header": "X-Token", "value": "U8",
                           "filters": [["skip_for", {"path": "/plain"}]]},
    "test_auth_both": {"kind": "provider", "scope": "test", "header": "X-Token", "value": "U8",
                       "filters": [["apply_to", {"method": "GET"}], ["skip_for", {"path": "/plain"}]]},
    "call_header_authorization": {"kind": "call_header", "name": "Authorization", "value": "Bearer U1"},
    "call_header_same_as_param": {"kind": "call_header", "name": "X-H", "value": "U2"},
    # GraphQL
    "gql_auth_apply_to": {"kind": "provider", "scope": "schema", "header": "X-Token", "value": "U8",
                          "filters": [["apply_to", {"name": "Query.getBooks"}]]},
}


def atom(name: str) -> dict:
    if name in ATOMS2:
        return ATOMS2[name]
    from props import c14

    old = dict(c14.ATOMS[name])
    if old["kind"] == "provider":
        flt = old.pop("filter", None)
        old["filters"] = [[flt[0], {"path": flt[1]}]] if flt else []
    return old


PAIRS_DOC1 = [("header_custom", "set_header"), ("basic_auth", "schema_auth"), ("header_custom", "header_same_as_param"),
              ("set_header", "set_cookie"), ("set_query_undeclared", "set_query"), ("set_cookie_undeclared", "set_cookie")]
BOTH_MODES = ["header_authorization", "basic_auth", "set_query", "set_header", "set_cookie", "set_path", "schema_auth",
              "schema_auth_skip_for"]
DOC2_ATOMS = ["header_key", "header_key_lower", "basic_auth", "header_authorization", "provider_key", "set_query", "set_header",
              "header_custom"]
DOC2_PAIRS = [("header_key", "set_query"), ("basic_auth", "header_custom")]
NO_SECURITY_PARAMETERS = ["header_key", "provider_key", "basic_auth"]
MORE_PROVIDERS = ["provider_uncached", "provider_refresh_0", "provider_keyed", "provider_both_filters", "provider_two_apply",
                  "provider_skip_method", "provider_requests", "provider_requests_apply_to", "provider_requests_skip_for",
                  "global_plain", "global_skip_for", "set_header_lower", "header_lower_same_as_param"]
PHASES = ["examples", "coverage", "fuzzing", "stateful"]
# several overrides that meet in ONE container of ONE operation (DOC3): every same-location pair, both orders of the atoms
SAME_LOCATION_PAIRS = [("set_query", "set_query2"), ("set_header", "set_header2"), ("set_cookie", "set_cookie2"),
                       ("set_path", "set_path2")]
ALL_OVERRIDES = ["set_query", "set_query2", "set_header", "set_header2", "set_cookie", "set_cookie2", "set_path", "set_path2"]
API_ATOMS = ["test_auth", "test_auth_keyed", "test_auth_apply_to", "test_auth_skip_for", "test_auth_both", "schema_auth",
             "schema_auth_apply_to", "global_auth_keyed", "provider_requests", "provider_requests_apply_to", "set_query",
             "set_header", "set_cookie", "set_path", "call_header_authorization", "call_header_same_as_param"]
API_PAIRS = [("test_auth", "set_header"), ("call_header_authorization", "set_query"), ("test_auth_skip_for", "set_cookie")]
GQL_ATOMS = ["header_authorization", "header_custom", "basic_auth", "schema_auth", "gql_auth_apply_to", "global_auth_keyed",
             "provider_requests"]


def extra_items(tier: str) -> list[dict]:
    out: list[dict] = []

    def a2(atoms: Any, phase: str, **kw: Any) -> None:
        out.append({"part": "a2", "doc": "DOC", "atoms": [atoms] if isinstance(atoms, str) else list(atoms), "phase": phase,
                    "modes": "positive", "checks": "default", "workers": 1, "security_parameters": True, **kw})

    for phase in PHASES:
        for pair in PAIRS_DOC1:
            a2(pair, phase)
        for name in MORE_PROVIDERS:
            a2(name, phase)
    for phase in PHASES[1:]:  # the examples phase is not affected by the generation mode
        for name in BOTH_MODES:
            a2(name, phase, modes="both")
    for phase in PHASES:
        for name in DOC2_ATOMS:
            a2(name, phase, doc="DOC2", checks="all")
        for pair in DOC2_PAIRS:
            a2(pair, phase, doc="DOC2", checks="all")
    for phase in ("coverage", "fuzzing"):
        for name in NO_SECURITY_PARAMETERS:
            a2(name, phase, doc="DOC2", checks="all", security_parameters=False)
    for name in ("schema_auth", "global_auth_keyed", "provider_keyed"):
        a2(name, "fuzzing", workers=2)
        a2(name, "all", workers=2)
    for name in ("header_key", "provider_key"):
        a2(name, "all", doc="DOC2", checks="all", modes="both")
    for phase in PHASES:
        for order in ("fwd", "rev"):
            for pair in SAME_LOCATION_PAIRS:
                a2(pair, phase, doc="DOC3" + order)
                a2(pair[::-1], phase, doc="DOC3" + order)
            a2(ALL_OVERRIDES, phase, doc="DOC3" + order)
    for phase in ("coverage", "fuzzing"):
        a2(ALL_OVERRIDES[::-1], phase, doc="DOC3fwd", modes="both")
    for transport in ("requests", "wsgi", "asgi"):
        for name in API_ATOMS:
            if transport == "wsgi" and atom(name).get("requests_auth"):
                continue  # documented as a `requests` auth object: not defined for the werkzeug client
            out.append({"part": "t", "transport": transport, "atoms": [name]})
        for pair in API_PAIRS:
            out.append({"part": "t", "transport": transport, "atoms": list(pair)})
    for name in GQL_ATOMS:
        out.append({"part": "g", "atoms": [name], "phase": "fuzzing"})
    out.append({"part": "g", "atoms": ["header_authorization", "schema_auth"], "phase": "all"})
    return out


# ---- registering the configuration -------------------------------------------------------------------------------------

class GetLog:
    """provider.get call log: (atom name, cache key or None)."""

    def __init__(self) -> None:
        self.calls: list[tuple[str, Any]] = []


def _key_of(case: Any, ctx: Any) -> str:
    return case.operation.label


def make_provider_class(name: str, spec: dict, log: GetLog) -> type:
    class Provider:
        def get(self, case: Any, context: Any) -> str:
            log.calls.append((name, _key_of(case, context) if spec.get("keyed") else None))
            return spec["value"]

        def set(self, case: Any, data: str, context: Any) -> None:
            case.headers = case.headers or {}
            case.headers[spec["header"]] = data

    return Provider


def _chain(registrar: Any, filters: list) -> Any:
    for kind, kwargs in filters:
        registrar = getattr(registrar, kind)(**kwargs)
    return registrar


def register_provider(name: str, spec: dict, schema: Any, log: GetLog, test: Any = None) -> Any:
    """Registers one provider atom the way a user would; returns the (possibly decorated) test function."""
    import requests.auth
    import schemathesis

    kwargs: dict[str, Any] = {}
    if spec.get("keyed"):
        kwargs["cache_by_key"] = _key_of
    if "refresh" in spec:
        kwargs["refresh_interval"] = spec["refresh"]
    if spec.get("requests_auth"):
        _chain(schema.auth.set_from_requests(requests.auth.HTTPBasicAuth("user", "pw")), spec["filters"])
        return test
    cls = make_provider_class(name, spec, log)
    if spec["scope"] == "test":
        return _chain(schema.auth(cls, **kwargs), spec["filters"])(test)
    target = schema.auth if spec["scope"] == "schema" else schemathesis.auth
    _chain(target(**kwargs), spec["filters"])(cls)
    return test


def provider_applies(spec: dict, op: str) -> bool:
    """The documented filter semantics: (no apply_to term or at least one matches) and no skip_for term matches."""
    method, template = op.split(" ", 1) if " " in op else ("POST", op)

    def matches(kwargs: dict) -> bool:
        ok = True
        for key, value in kwargs.items():
            if key == "path":
                ok = ok and template == value
            elif key == "method":
                ok = ok and method.upper() == value.upper()
            elif key == "name":
                ok = ok and op == value
            else:
                raise AssertionError(key)
        return ok

    includes = [kw for kind, kw in spec["filters"] if kind == "apply_to"]
    excludes = [kw for kind, kw in spec["filters"] if kind == "skip_for"]
    if any(matches(kw) for kw in excludes):
        return False
    return not includes or any(matches(kw) for kw in includes)


# ---- the oracle --------------------------------------------------------------------------------------------------------

def judge(res: Result, base: dict, item: dict, names: list[str], requests_seen: list[dict], ops: dict, log: GetLog,
          unit_phase: bool) -> None:
    """requests_seen: dicts {method, path, op, query: [(k, v)], headers: {lower: value}, probe: bool, json: ...}."""
    atoms = [atom(n) for n in names]
    config_headers = [a for a in atoms if a["kind"] == "header"]

    def supplies_header(other: dict, header: str, op: str) -> bool:
        """Does another user-supplied atom also write this header on this operation?  (Two user values are not ranked.)"""
        h = header.lower()
        if other["kind"] in ("header", "call_header"):
            return other["name"].lower() == h
        if other["kind"] == "auth":
            return h == "authorization"
        if other["kind"] == "provider":
            return other["header"].lower() == h
        if other["kind"] == "override" and other["location"] == "headers":
            return other["name"].lower() == h and any(d.lower() == h for d in ops[op]["headers"])
        return False

    for req in requests_seen:
        op = req["op"]
        res.traces += 1
        if req["probe"]:
            # the sanctioned exception: a request a check derived from a sent case (recorder node with a parent, no transition)
            res.count("check_derived_probe_requests_exempted")
            continue
        hdrs = req["headers"]
        applies = False
        for name, a in zip(names, atoms):
            others = [o for o in atoms if o is not a]
            sig = {**base, "atom": name, "operation": op}
            detail = {"item": item, "atom": name, "request": req["json"], "operation": op}
            if a["kind"] in ("header", "call_header"):
                applies = True
                if any(supplies_header(o, a["name"], op) for o in others):
                    continue
                observed = hdrs.get(a["name"].lower())
                if observed != a["value"]:
                    res.violation({**sig, "kind": "configured_header_missing_or_overwritten"}, detail | {"observed": observed})
            elif a["kind"] == "auth":
                applies = True
                if any(supplies_header(o, "Authorization", op) for o in others):
                    continue
                if hdrs.get("authorization") != BASIC_VALUE:
                    res.violation({**sig, "kind": "basic_auth_missing"}, detail | {"observed": hdrs.get("authorization")})
            elif a["kind"] == "override":
                loc, pname, value = a["location"], a["name"], a["value"]
                declared = ops[op][loc]
                if loc == "headers":
                    # HTTP header names are case-insensitive (RFC 9110; OpenAPI: "header names are case insensitive")
                    same = [d for d in declared if d.lower() == pname.lower()]
                    if not same:
                        continue
                    if any(supplies_header(o, pname, op) for o in others):
                        continue
                    applies = True
                    observed = hdrs.get(pname.lower())
                    if observed != value:
                        res.violation({**sig, "kind": "header_override_missing_or_overwritten", "name_case_differs": pname not in declared,
                                       "with_config_headers": bool(config_headers), "unit_phase": unit_phase},
                                      detail | {"observed": observed})
                    continue
                if pname not in declared:
                    continue  # declared elsewhere / not at all: the override does not apply to this operation - nothing is claimed
                applies = True
                if loc == "query":
                    vals = [v for k, v in req["query"] if k == pname]
                    if vals != [value]:
                        res.violation({**sig, "kind": "query_override_missing_or_overwritten"}, detail | {"observed": vals})
                elif loc == "cookies":
                    cookie = hdrs.get("cookie", "")
                    pairs = dict(p.strip().split("=", 1) for p in cookie.split(";") if "=" in p)
                    if pairs.get(pname) != value:
                        res.violation({**sig, "kind": "cookie_override_missing_or_overwritten"}, detail | {"observed": cookie})
                elif loc == "path_parameters":
                    template = ops[op].get("template")
                    if template is None:
                        segment = req["path"].rstrip("/").rsplit("/", 1)[-1]
                    else:
                        t_parts, p_parts = template.split("/"), req["path"].split("/")
                        at = t_parts.index("{" + pname + "}")
                        segment = p_parts[at] if len(p_parts) == len(t_parts) else None
                    if segment != value:
                        res.violation({**sig, "kind": "path_override_missing_or_overwritten"}, detail | {"observed": segment})
            elif a["kind"] == "provider":
                more_specific = {"global": ("schema", "test"), "schema": ("test",), "test": ()}[a["scope"]]
                if any(o["kind"] == "provider" and o["scope"] in more_specific for o in others):
                    continue  # documented precedence: the more specific auth storage shadows this one as a whole
                if a["scope"] == "global" and any(o["kind"] == "auth" for o in others):
                    continue  # documented: an explicit --auth replaces the globally registered provider
                if any(supplies_header(o, a["header"], op) for o in others):
                    continue
                observed = hdrs.get(a["header"].lower())
                if provider_applies(a, op):
                    applies = True
                    if observed != a["value"]:
                        res.violation({**sig, "kind": "auth_provider_data_missing"}, detail | {"observed": observed})
                elif observed == a["value"]:
                    res.violation({**sig, "kind": "auth_provider_applied_outside_its_filter"}, detail | {"observed": observed})
        if applies:
            res.nontriv([item, req["method"], req["path"], req["query"], sorted(hdrs.items()), req["json"].get("body")])
    # the provider.get call log: a caching provider fetches at most once per cache key within its refresh interval
    # (300 s by default; one run takes well under a second of real time)
    for name, a in zip(names, atoms):
        if a["kind"] != "provider" or a.get("requests_auth") or a.get("refresh", "default") != "default":
            continue
        per_key: dict[Any, int] = {}
        for who, key in log.calls:
            if who == name:
                per_key[key] = per_key.get(key, 0) + 1
        if per_key:
            res.count("runs_with_provider_get_logged")
        for key, n in sorted(per_key.items(), key=repr):
            if n > 1:
                res.violation({**base, "atom": name, "kind": "auth_provider_token_fetched_more_than_once_per_key"},
                              {"item": item, "key": key, "fetches": n})
                break


# ---- a2: the engine ------------------------------------------------------------------------------------------------------

def _operation(path: str, ops: dict) -> str | None:
    if path.startswith("/r/"):
        return "GET /r/{id}"
    if path.startswith("/users/"):
        return "GET /users/{id}"
    if path.startswith("/two/"):
        return "GET /two/{id}/{id2}" if "GET /two/{id}/{id2}" in ops else None
    table = {"/plain": "GET /plain", "/users": "POST /users", "/b": "GET /b", "/n": "GET /n"}
    op = table.get(path)
    return op if op in ops else None


def _lower(headers: dict) -> dict:
    return {k.lower(): v for k, v in headers.items()}


def _valid_credentials(atoms: list[dict]) -> list[tuple[str, str]]:
    out = []
    for a in atoms:
        if a["kind"] == "header":
            out.append((a["name"].lower(), a["value"]))
        elif a["kind"] == "auth":
            out.append(("authorization", BASIC_VALUE))
        elif a["kind"] == "provider":
            out.append((a["header"].lower(), a["value"]))
    return out


def check_a2(item: dict, tier: str) -> Result:
    import schemathesis
    import schemathesis.specs.openapi.checks  # noqa: F401 - registers the built-in checks
    from schemathesis import auths
    from schemathesis.checks import CHECKS
    from schemathesis.generation import GenerationConfig, GenerationMode
    from schemathesis.generation.overrides import Override

    res = Result()
    names = item["atoms"]
    atoms = [atom(n) for n in names]
    if item["doc"].startswith("DOC3"):
        doc, ops = doc3(item["doc"][4:]), OPS3
    else:
        doc, ops = (doc2(), OPS2) if item["doc"] == "DOC2" else (doc1(), OPS1)
    modes = [GenerationMode.POSITIVE, GenerationMode.NEGATIVE] if item["modes"] == "both" else [GenerationMode.POSITIVE]
    generation = GenerationConfig(modes=modes, with_security_parameters=item["security_parameters"])
    schema = engine.load_schema(doc, generation=generation)
    headers: dict[str, str] = {}
    auth = None
    override: dict[str, dict] = {"query": {}, "headers": {}, "cookies": {}, "path_parameters": {}}
    log = GetLog()
    registered_global = False
    for name, a in zip(names, atoms):
        if a["kind"] == "header":
            headers[a["name"]] = a["value"]
        elif a["kind"] == "auth":
            auth = tuple(a["value"])
        elif a["kind"] == "override":
            override[a["location"]][a["name"]] = a["value"]
        elif a["kind"] == "provider":
            register_provider(name, a, schema, log)
            registered_global = registered_global or a["scope"] == "global"
    valid = _valid_credentials(atoms)

    def handler(ex: httpseam.Exchange) -> tuple:
        op = _operation(ex.path, ops)
        if op in SECURED and item["doc"] == "DOC2":
            h = _lower(ex.headers)
            if not any(h.get(k) == v for k, v in valid):
                return httpseam.json_response(401, {})
        if ex.path == "/users" and ex.method == "POST":
            return httpseam.json_response(201, {"id": 7})
        return httpseam.json_response(200, {})

    phases = PHASES if item["phase"] == "all" else [item["phase"]]
    config = engine.make_config(phases=phases, max_examples=3, headers=headers, auth=auth, workers=item["workers"],
                                override=Override(**override) if any(override.values()) else None, stateful_step_count=2,
                                generation=generation, checks=CHECKS.get_all() if item["checks"] == "all" else None)
    try:
        run = engine.run_engine(schema, config, handler)
    finally:
        if registered_global:
            auths.unregister()
    res.evaluations += 1
    res.states += 1
    res.transitions += len(run.exchanges)
    base = {"part": "a2", "phase": item["phase"], "doc": item["doc"], "modes": item["modes"], "checks": item["checks"],
            "security_parameters": item["security_parameters"]}
    if run.error is not None:
        res.violation({**base, "kind": "engine_run_raised", "error": type(run.error).__name__}, {"item": item, "error": repr(run.error)[:300]})
        return res
    errors = [e for e in run.events if type(e).__name__ == "NonFatalError"]
    if errors:
        res.violation({**base, "kind": "engine_reported_error", "atoms": names,
                       "error_types": sorted({type(getattr(e, "value", e)).__name__ for e in errors})},
                      {"item": item, "errors": [str(getattr(e, "value", e))[:300] for e in errors][:3]})
    # recorder nodes: which wire requests were derived inside a check (parent, no transition)
    derived: set[str] = set()
    recorded: set[str] = set()
    for event in run.events:
        recorder = getattr(event, "recorder", None)
        if recorder is None:
            continue
        for case_id, node in recorder.cases.items():
            recorded.add(case_id)
            if node.parent_id is not None and node.transition is None:
                derived.add(case_id)
    seen = []
    for ex in run.exchanges:
        op = _operation(ex.path, ops)
        if op is None:
            continue
        hdrs = _lower(ex.headers)
        case_id = hdrs.get(httpseam.CASE_ID_HEADER.lower())
        if case_id not in recorded:
            res.count("requests_without_recorder_node")
        seen.append({"method": ex.method, "path": ex.path, "op": op, "query": ex.query, "headers": hdrs, "probe": case_id in derived,
                     "json": ex.as_json()})
    judge(res, base, item, names, seen, ops, log, unit_phase=item["phase"] in ("examples", "coverage", "fuzzing"))
    probes = [r for r in seen if r["probe"]]
    if probes:
        res.count("runs_with_check_derived_probes")
        last_probe = max(i for i, r in enumerate(seen) if r["probe"])
        if any(not r["probe"] for r in seen[last_probe + 1:]):
            res.count("runs_with_judged_requests_after_a_probe")
    if item["modes"] == "both" and any(r["method"] != r["op"].split(" ")[0] for r in seen):
        res.count("runs_with_unexpected_method_requests")
    if item["workers"] > 1 and len({ex.thread for ex in run.exchanges}) > 1:
        res.count("runs_with_two_sending_workers")
    res.outcomes.add(("a2", item["phase"], bool(run.exchanges), bool(probes)))
    if any(ex.path.startswith("/users/7") for ex in run.exchanges):
        res.count("a2_runs_with_link_derived_requests")
    if item["doc"].startswith("DOC3") and any(r["op"] == "GET /two/{id}/{id2}" and not r["probe"] for r in seen):
        res.count("a2_runs_with_several_overrides_in_one_container")
    if not res.samples and run.exchanges:
        res.samples.append({"item": item, "requests": [x.as_json() for x in run.exchanges[:3]]})
    return res


# ---- t: the Python API (test scope), three transports ----------------------------------------------------------------------

def _wsgi_app(sink: list) -> Any:
    def app(environ: dict, start_response: Any) -> list:
        headers = {k[5:].replace("_", "-").lower(): v for k, v in environ.items() if k.startswith("HTTP_")}
        sink.append({"method": environ["REQUEST_METHOD"], "path": environ["PATH_INFO"], "raw_query": environ.get("QUERY_STRING", ""),
                     "headers": headers})
        start_response("200 OK", [("Content-Type", "application/json")])
        return [b"{}"]

    return app


def _asgi_app(sink: list) -> Any:
    async def app(scope: dict, receive: Any, send: Any) -> None:
        if scope["type"] == "lifespan":
            while True:
                message = await receive()
                if message["type"] == "lifespan.startup":
                    await send({"type": "lifespan.startup.complete"})
                elif message["type"] == "lifespan.shutdown":
                    await send({"type": "lifespan.shutdown.complete"})
                    return
        if scope["type"] != "http":
            return
        headers = {k.decode("latin-1").lower(): v.decode("latin-1") for k, v in scope["headers"]}
        sink.append({"method": scope["method"], "path": scope["path"], "raw_query": scope["query_string"].decode("latin-1"),
                     "headers": headers})
        await send({"type": "http.response.start", "status": 200, "headers": [(b"content-type", b"application/json")]})
        await send({"type": "http.response.body", "body": b"{}"})

    return app


def check_t(item: dict, tier: str) -> Result:
    from urllib.parse import parse_qsl

    import hypothesis
    import schemathesis
    from schemathesis import auths
    from schemathesis.generation.hypothesis.builder import HypothesisTestConfig, HypothesisTestMode, create_test
    from schemathesis.generation.overrides import OverrideMark

    res = Result()
    names = item["atoms"]
    atoms = [atom(n) for n in names]
    sink: list[dict] = []
    schema = schemathesis.openapi.from_dict(copy.deepcopy(doc1()))
    if item["transport"] == "requests":
        schema = schema.configure(base_url=httpseam.BASE_URL)
    elif item["transport"] == "wsgi":
        schema = schema.configure(app=_wsgi_app(sink))
    else:
        schema = schema.configure(app=_asgi_app(sink))
    call_headers = {a["name"]: a["value"] for a in atoms if a["kind"] == "call_header"}
    override = {"query": {}, "headers": {}, "cookies": {}, "path_parameters": {}}
    log = GetLog()

    def test(case: Any) -> None:
        case.call(headers=dict(call_headers) if call_headers else None)

    registered_global = False
    for name, a in zip(names, atoms):
        if a["kind"] == "override":
            override[a["location"]][a["name"]] = a["value"]
        elif a["kind"] == "provider":
            test = register_provider(name, a, schema, log, test)
            registered_global = registered_global or a["scope"] == "global"
    if any(override.values()):
        test = schema.override(**override)(test)
    settings = hypothesis.settings(derandomize=True, max_examples=3, database=None, deadline=None,
                                   suppress_health_check=list(hypothesis.HealthCheck))
    base = {"part": "t", "transport": item["transport"]}
    try:
        with httpseam.installed(httpseam.ok_handler) as wire:
            for result in schema.get_all_operations():
                operation = result.ok()
                # the glue of the pytest plugin: overrides of the test function become explicit strategy arguments
                mark = OverrideMark.get(test)
                kwargs = {loc: entry for loc, entry in mark.for_operation(operation).items() if entry} if mark is not None else {}
                hypothesis_test = create_test(operation=operation, test_func=test, config=HypothesisTestConfig(
                    modes=list(HypothesisTestMode), settings=settings, seed=1, generation=schema.generation_config,
                    as_strategy_kwargs=kwargs))
                try:
                    hypothesis_test()
                except Exception as exc:  # noqa: BLE001 - the test body only sends; nothing in it may fail
                    res.violation({**base, "kind": "test_function_raised", "error": type(exc).__name__, "operation": operation.label},
                                  {"item": item, "error": repr(exc)[:300]})
                res.evaluations += 1
            for ex in wire.exchanges:
                sink.append({"method": ex.method, "path": ex.path, "raw_query": ex.url.partition("?")[2], "headers": _lower(ex.headers)})
    finally:
        if registered_global:
            auths.unregister()
    seen = []
    for r in sink:
        op = _operation(r["path"], OPS1)
        if op is None:
            continue
        query = parse_qsl(r["raw_query"], keep_blank_values=True)
        shown = {k: v for k, v in r["headers"].items() if k != httpseam.CASE_ID_HEADER.lower()}
        seen.append({"method": r["method"], "path": r["path"], "op": op, "query": query, "headers": r["headers"], "probe": False,
                     "json": {"method": r["method"], "path": r["path"], "query": r["raw_query"], "headers": shown}})
    res.states += 1
    res.transitions += len(seen)
    judge(res, base, item, names, seen, OPS1, log, unit_phase=True)
    if seen:
        res.count(f"python_api_runs_with_requests_{item['transport']}")
    res.outcomes.add(("t", item["transport"], bool(seen)))
    if not res.samples and seen:
        res.samples.append({"item": item, "requests": [r["json"] for r in seen[:3]]})
    return res


# ---- g: GraphQL --------------------------------------------------------------------------------------------------------

def check_g(item: dict, tier: str) -> Result:
    import schemathesis
    from schemathesis import auths

    res = Result()
    names = item["atoms"]
    atoms = [atom(n) for n in names]
    schema = schemathesis.graphql.from_file(SDL).configure(base_url=httpseam.BASE_URL + "/graphql")
    headers: dict[str, str] = {}
    auth = None
    log = GetLog()
    registered_global = False
    for name, a in zip(names, atoms):
        if a["kind"] == "header":
            headers[a["name"]] = a["value"]
        elif a["kind"] == "auth":
            auth = tuple(a["value"])
        elif a["kind"] == "provider":
            register_provider(name, a, schema, log)
            registered_global = registered_global or a["scope"] == "global"
    phases = PHASES if item["phase"] == "all" else [item["phase"]]
    config = engine.make_config(phases=phases, max_examples=3, headers=headers, auth=auth)
    try:
        run = engine.run_engine(schema, config, lambda ex: httpseam.json_response(200, {"data": {}}))
    finally:
        if registered_global:
            auths.unregister()
    res.evaluations += 1
    res.states += 1
    res.transitions += len(run.exchanges)
    base = {"part": "g", "phase": item["phase"]}
    if run.error is not None:
        res.violation({**base, "kind": "engine_run_raised", "error": type(run.error).__name__}, {"item": item, "error": repr(run.error)[:300]})
        return res
    errors = [e for e in run.events if type(e).__name__ == "NonFatalError"]
    if errors:
        res.violation({**base, "kind": "engine_reported_error", "atoms": names},
                      {"item": item, "errors": [str(getattr(e, "value", e))[:300] for e in errors][:3]})
    seen = []
    for ex in run.exchanges:
        if ex.path != "/graphql":
            continue
        body = (ex.body or b"").decode("utf-8", "replace")
        op = "Mutation.addBook" if "addBook" in body else "Query.getBooks" if "getBooks" in body else None
        if op is None:
            continue
        seen.append({"method": ex.method, "path": ex.path, "op": op, "query": ex.query, "headers": _lower(ex.headers), "probe": False,
                     "json": ex.as_json()})
    judge(res, base, item, names, seen, GQL_OPS, log, unit_phase=True)
    if len({r["op"] for r in seen}) == 2:
        res.count("graphql_runs_with_query_and_mutation")
    res.outcomes.add(("g", item["phase"], bool(seen)))
    if not res.samples and seen:
        res.samples.append({"item": item, "requests": [r["json"] for r in seen[:2]]})
    return res


def vacuity(total: Result, tier: str) -> list[str]:
    c = total.counters
    out = []
    for key, text in [
        ("runs_with_check_derived_probes", "no run contained a request derived inside a check (ignored_auth probes never seen)"),
        ("runs_with_judged_requests_after_a_probe", "no ordinary request was judged after a credential-stripping probe"),
        ("runs_with_unexpected_method_requests", "no negative-mode run sent an unexpected-method request"),
        ("runs_with_two_sending_workers", "no 2-worker run sent from two threads"),
        ("runs_with_provider_get_logged", "the provider.get call log stayed empty"),
        ("a2_runs_with_link_derived_requests", "no a2 stateful run followed a link"),
        ("a2_runs_with_several_overrides_in_one_container", "no request to the operation with two parameters per location was judged"),
        ("python_api_runs_with_requests_requests", "Python-API items sent nothing through requests"),
        ("python_api_runs_with_requests_wsgi", "Python-API items sent nothing through WSGI"),
        ("python_api_runs_with_requests_asgi", "Python-API items sent nothing through ASGI"),
        ("graphql_runs_with_query_and_mutation", "no GraphQL run sent both a query and a mutation"),
    ]:
        if not c.get(key):
            out.append(text)
    return out
