"""The real engine under the E3 scheduler: module-global seams are replaced from outside for one execution."""

from __future__ import annotations

import contextlib
from dataclasses import dataclass, field
from typing import Any, Callable, Iterator

from mc import engine, httpseam
from mc.sched import SchedAbort, Scheduler


@contextlib.contextmanager
def patched(sched: Scheduler) -> Iterator[dict]:
    """Replace the synchronisation objects the engine uses by scheduler shims; restore afterwards."""
    import schemathesis.engine.core as core
    import schemathesis.engine.phases.stateful as stateful
    import schemathesis.engine.phases.unit._pool as pool
    from schemathesis.engine.control import ExecutionControl

    ns = sched.threading_namespace()
    qns = sched.queue_namespace()
    hits = {"is_stopped": 0, "count_failure": 0}
    saved = [
        (core, "threading", core.threading),
        (pool, "threading", pool.threading),
        (pool, "Queue", pool.Queue),
        (stateful, "threading", stateful.threading),
        (stateful, "queue", stateful.queue),
        (ExecutionControl, "is_stopped", ExecutionControl.__dict__["is_stopped"]),
        (ExecutionControl, "count_failure", ExecutionControl.__dict__["count_failure"]),
    ]
    for mod, name, _ in saved[:5]:
        if not hasattr(mod, name):
            raise RuntimeError(f"seam {mod.__name__}.{name} does not exist any more")
    core.threading = ns
    pool.threading = ns
    pool.Queue = qns.Queue
    stateful.threading = ns
    stateful.queue = qns
    orig_is_stopped = ExecutionControl.__dict__["is_stopped"].fget
    orig_count_failure = ExecutionControl.__dict__["count_failure"]

    def is_stopped(self: Any) -> bool:
        hits["is_stopped"] += 1
        sched.point("control.is_stopped")
        return orig_is_stopped(self)

    def count_failure(self: Any) -> None:
        hits["count_failure"] += 1
        sched.point("control.count_failure")
        return orig_count_failure(self)

    import schemathesis.engine.phases.unit._executor as unit_executor

    orig_setup_key = unit_executor.setup_hypothesis_database_key
    saved.append((unit_executor, "setup_hypothesis_database_key", orig_setup_key))

    def setup_hypothesis_database_key(test: Any, operation: Any) -> None:
        # the per-operation Hypothesis test object is prepared here and *used* right after: a point in between makes
        # "another worker prepares its own test now" an explorable schedule (state shared between tests would show)
        orig_setup_key(test, operation)
        sched.point("test_prepared")

    unit_executor.setup_hypothesis_database_key = setup_hypothesis_database_key
    ExecutionControl.is_stopped = property(is_stopped)  # type: ignore[assignment]
    ExecutionControl.count_failure = count_failure  # type: ignore[method-assign]
    try:
        yield hits
    finally:
        for mod, name, value in saved:
            setattr(mod, name, value)


@dataclass
class ScheduledRun:
    events: list = field(default_factory=list)
    event_times: list = field(default_factory=list)  # logical time at which each event was yielded
    exchanges: list = field(default_factory=list)
    error: BaseException | None = None
    stop_requested_at: int | None = None  # logical time of the consumer's stop()
    stop_after_event: int | None = None
    interrupted_at: int | None = None
    stop_event_set_at: int | None = None  # logical time at which the engine's stop event became set (any cause)
    worker_errors: list = field(default_factory=list)
    hits: dict = field(default_factory=dict)
    put_times: dict = field(default_factory=dict)  # id(event) -> logical time at which its producer queued it
    _keepalive: list = field(default_factory=list)


def engine_body(doc: dict, make_config: Callable[[], Any], handler_factory: Callable[[], httpseam.Handler], *,
                consumer_may_stop: bool = False, on_send_extra: Callable | None = None,
                prepare: Callable[[Any], None] | None = None,
                cleanup: Callable[[], None] | None = None) -> Callable[[Scheduler], ScheduledRun]:
    """Body for ``sched.explore``: one complete engine run; the main thread is the event consumer."""

    def body(sched: Scheduler) -> ScheduledRun:
        from schemathesis.engine import from_schema

        run = ScheduledRun()
        handler = handler_factory()

        def on_send(exchange: httpseam.Exchange) -> None:
            sched.point("send")
            exchange.time = sched.clock
            if on_send_extra is not None:
                on_send_extra(exchange)

        with patched(sched) as hits, httpseam.installed(handler, on_send) as log:
            schema = engine.load_schema(doc)
            if prepare is not None:
                prepare(schema)
            stopped = False
            try:
                stream = from_schema(schema, config=make_config()).execute()
                for event in stream:
                    run.events.append(event)
                    run.event_times.append(sched.clock)
                    if consumer_may_stop and not stopped and not type(event).__name__ == "EngineFinished":
                        if sched.env_choice("consumer", ["continue", "stop"]) == 1:
                            stopped = True
                            run.stop_after_event = len(run.events) - 1
                            run.stop_requested_at = sched.clock
                            stream.stop()
            except SchedAbort:
                raise
            except KeyboardInterrupt as exc:
                run.error = exc
            except BaseException as exc:  # noqa: BLE001 - observation
                run.error = exc
            finally:
                if cleanup is not None:
                    cleanup()
            run.exchanges = list(log.exchanges)
            run.hits = dict(hits)
            run.put_times = {id(item): t for item, t in sched.put_log}
            run._keepalive = [item for item, _ in sched.put_log]  # ids stay unique while the objects live
            stop_event = getattr(stream, "stop_event", None) if "stream" in locals() else None
            if stop_event is not None:
                run.stop_event_set_at = getattr(stop_event, "set_at", None)
        for t in sched.threads[1:]:
            err = getattr(t, "error", None)
            if err is not None:
                run.worker_errors.append((t.name, err))
        return run

    return body
