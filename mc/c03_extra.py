"""Review round 2 enumerators for C03 (props/c03.py).  Everything here is data; props/c03.py builds and judges it.

The first version enumerated, at case level, one parameter under test (always written first) with one companion, one JSON
body, one or two declared methods and the default set of unexpected methods; at value level arrays with at most one of
minItems / maxItems / uniqueItems.  The property quantifies over *all operations* and *all parameter/body schemas*; the
dimensions below are inside that quantifier and cheap:

* ``array_limit_schemas`` (value level) - arrays with minItems == maxItems (0, 1, 2), adjacent limits, ``uniqueItems`` next
  to a length limit, ``uniqueItems`` over enum / boolean items (exactly as many distinct values as the limit asks for), a
  one-value enum as items, nested arrays (one step deeper than ``Array with invalid items: D``);
* ``string_limit_schemas`` / ``object_shape_schemas`` (value level) - see their docstrings;
* ``layout_items`` (case level), family
  - ``order``    two parameters of one container written optional-first (query, header, cookie), two required parameters in one
                 header / cookie container, ``required`` omitted instead of ``false``, three parameters of one container in the
                 three rotations (the required one first / middle / last), three parameters in three locations in both orders;
  - ``samename`` the same parameter name in two locations (query+header in both orders and requirednesses, path+query,
                 cookie+query both required);
  - ``media``    request bodies with two and three media types whose schemas differ (both writing orders, with and without a
                 parameter that carries the template body, optional body, the same schema under two media types, Swagger 2.0
                 ``consumes`` with two entries);
  - ``methods``  the ``unexpected_methods`` argument of ``_iter_coverage_cases`` (what ``--experimental-coverage-unexpected-methods``
                 sets: lower-case names, ``head`` allowed) containing declared and undeclared methods, only declared ones, ``head``;
                 path items with all seven default methods declared (zero unexpected-method cases), with ``head`` declared, with
                 ``summary`` and path-level ``parameters`` next to the methods;
  and, on the small items, the mode list written ``[negative, positive]`` (a list whose order must not matter).
"""

from __future__ import annotations

import copy
from typing import Any

INT = {"type": "integer"}
STR = {"type": "string"}
P_INT = {"type": "integer", "minimum": 1, "maximum": 3}
P_MIN = {"type": "integer", "minimum": 1}
P_STR = {"type": "string", "minLength": 1}
P_STR3 = {"type": "string", "maxLength": 3}
P_BOOL = {"type": "boolean"}
P_ENUM = {"type": "string", "enum": ["x", "y"]}


def array_limit_schemas(nested: bool) -> list[dict]:
    out: list[dict] = []
    for items in (INT, STR):
        for mn, mx in ((0, 0), (1, 1), (2, 2), (0, 1), (1, 2)):
            out.append({"type": "array", "items": dict(items), "minItems": mn, "maxItems": mx})
    out += [
        {"type": "array", "items": dict(INT), "minItems": 2, "uniqueItems": True},
        {"type": "array", "items": dict(INT), "maxItems": 1, "uniqueItems": True},
        {"type": "array", "items": dict(INT), "maxItems": 0, "uniqueItems": True},
        {"type": "array", "items": dict(INT), "minItems": 2, "maxItems": 2, "uniqueItems": False},
        {"type": "array", "items": dict(P_ENUM), "uniqueItems": True},
        {"type": "array", "items": dict(P_ENUM), "minItems": 2, "uniqueItems": True},
        {"type": "array", "items": dict(P_ENUM), "maxItems": 2, "uniqueItems": True},
        {"type": "array", "items": {"type": "string", "enum": ["x"]}, "minItems": 1, "uniqueItems": True},
        {"type": "array", "items": {"type": "string", "enum": ["x"]}, "minItems": 1, "maxItems": 1},
        {"type": "array", "items": dict(P_BOOL), "minItems": 2, "maxItems": 2, "uniqueItems": True},
    ]
    if nested:
        out += [
            {"type": "array", "items": {"type": "array", "items": dict(P_MIN)}},
            {"type": "array", "items": {"type": "array", "items": dict(STR), "minItems": 1}},
            {"type": "array", "items": {"type": "array", "items": dict(INT), "uniqueItems": True}, "minItems": 1, "maxItems": 1},
            {"type": "array", "items": {"type": "array", "items": {"type": "array", "items": dict(P_BOOL)}}},
        ]
    return copy.deepcopy(out)


def string_limit_schemas() -> list[dict]:
    """minLength == maxLength >= 2 (the near-boundary length below the maximum exists and must not drop under the minimum), adjacent
    limits, and a format whose values have one length next to a length limit at / off that length."""
    return copy.deepcopy([
        {"type": "string", "minLength": 2, "maxLength": 2},
        {"type": "string", "minLength": 3, "maxLength": 3},
        {"type": "string", "minLength": 2, "maxLength": 3},
        {"type": "string", "format": "date", "maxLength": 10},
        {"type": "string", "format": "date", "minLength": 10, "maxLength": 10},
        {"type": "string", "format": "uuid", "minLength": 36},
    ])


def object_shape_schemas() -> list[dict]:
    """Objects: three and more optional properties (the 'subset of optional properties' values exist from three on), `required` and
    `properties` written in the other order, `required: []` and `properties: {}` written out, `additionalProperties: false` without
    properties, property names that need escaping in a JSON pointer, one level deeper (object in array in object)."""
    a, b = {"type": "integer", "minimum": 1}, {"type": "string", "maxLength": 2}
    return copy.deepcopy([
        {"type": "object", "properties": {"a": a, "b": b, "c": dict(P_BOOL), "d": dict(P_ENUM)}, "required": ["a"]},
        {"type": "object", "properties": {"a": a, "b": b, "c": dict(P_BOOL)}},
        {"type": "object", "properties": {"a": a, "b": b, "c": dict(P_BOOL), "d": dict(P_ENUM)}, "required": ["d"], "additionalProperties": False},
        {"type": "object", "properties": {"a": a, "b": b}, "required": ["b", "a"]},
        {"type": "object", "properties": {"b": b, "a": a}, "required": ["a"]},
        {"type": "object", "properties": {"a": a}, "required": []},
        {"type": "object", "properties": {}, "additionalProperties": False},
        {"type": "object", "additionalProperties": False},
        {"type": "object", "properties": {"a/b": a, "c~d": b}, "required": ["a/b"], "additionalProperties": False},
        {"type": "object", "properties": {"l": {"type": "array", "items": {"type": "object", "properties": {"a": a}, "required": ["a"]}}},
         "required": ["l"]},
    ])


def _p(name: str, loc: str, required: Any, schema: dict) -> dict:
    out: dict[str, Any] = {"name": name, "in": loc}
    if required is not None:
        out["required"] = required  # None: the key is left out (the standard's default is false)
    out["schema"] = copy.deepcopy(schema)
    return out


J_INT = ["application/json", {"type": "integer", "minimum": 1}]
X_ENUM = ["application/xml", {"type": "string", "enum": ["x", "y"]}]
J_OBJ = ["application/json", {"type": "object", "properties": {"a": {"type": "integer", "minimum": 1}}, "required": ["a"]}]
T_STR = ["text/plain", {"type": "string", "minLength": 1}]
T_STR2 = ["text/plain", {"type": "string", "maxLength": 2}]
X_INT = ["application/xml", {"type": "integer", "minimum": 1}]

ALL_DEFAULT_METHODS = ["get", "put", "post", "delete", "options", "patch", "trace"]


def layout_items() -> list[dict]:
    """Case-level work items with the document written out: params (in writing order), bodies, methods."""
    out: list[dict] = []

    def add(family: str, name: str, params: list[dict], *, spec: str = "3.0", bodies: list | None = None, body_required: bool = True,
            method: str | None = None, other_methods: list[str] | None = None, unexpected: list[str] | None = None,
            path_level: list[dict] | None = None, summary: bool = False, reversed_modes: bool = False) -> None:
        path = "/t"
        for p in list(params) + list(path_level or []):
            if p["in"] == "path":
                path += "/{" + p["name"] + "}"
        out.append({
            "level": "case", "spec": spec, "loc": "layout", "family": f"{family}:{name}", "schema": {}, "required": body_required,
            "companion": "layout", "body": "none" if not bodies else "+".join(b[0].split("/")[1] for b in bodies), "methods": 1 + len(other_methods or []),
            "params": copy.deepcopy(params), "bodies": copy.deepcopy(bodies), "method": method or ("post" if bodies else "get"),
            "other_methods": list(other_methods or []), "unexpected_methods": unexpected, "path_level": copy.deepcopy(path_level or []),
            "summary": summary, "path": path, "reversed_modes": reversed_modes,
        })

    # ---- order: writing order / position of the parameters of one container, requiredness mixes
    add("order", "query_opt_req", [_p("o", "query", False, P_STR3), _p("p", "query", True, P_INT)])
    add("order", "header_opt_req", [_p("X-O", "header", False, P_STR3), _p("X-P", "header", True, P_INT)])
    add("order", "cookie_opt_req", [_p("o", "cookie", False, P_STR3), _p("p", "cookie", True, P_INT)])
    add("order", "header_req_req", [_p("X-R", "header", True, P_STR), _p("X-P", "header", True, P_INT)])
    add("order", "cookie_req_req", [_p("r", "cookie", True, P_ENUM), _p("p", "cookie", True, P_INT)])
    add("order", "query_req_omitted", [_p("p", "query", True, P_INT), _p("o", "query", None, P_BOOL)], reversed_modes=True)
    p3, r3, o3 = _p("p", "query", True, P_INT), _p("r", "query", True, P_STR), _p("o", "query", None, P_BOOL)
    add("order", "query_three_p_first", [p3, r3, o3])
    add("order", "query_three_p_last", [r3, o3, p3])
    add("order", "query_three_p_middle", [o3, p3, r3])
    three_h = [_p("X-O", "header", False, P_BOOL), _p("X-P", "header", True, P_INT), _p("X-R", "header", False, P_STR3)]
    add("order", "header_three_required_middle", three_h)
    mixed = [_p("p", "path", True, P_INT), _p("q", "query", True, P_ENUM), _p("X-H", "header", False, P_STR)]
    add("order", "three_locations", mixed, bodies=[J_INT])
    add("order", "three_locations_reversed", mixed[::-1])
    add("order", "two_path_parameters", [_p("b", "path", True, P_STR), _p("a", "path", True, P_INT)])
    add("order", "names_needing_escaping", [_p("a b", "query", True, P_INT), _p("p[]", "query", False, P_ENUM), _p("c/d", "query", True, P_STR)])
    # ---- samename: one name in two locations
    add("samename", "query_req_header_opt", [_p("p", "query", True, P_INT), _p("p", "header", False, P_STR)], reversed_modes=True)
    add("samename", "header_req_query_opt", [_p("p", "header", True, P_STR), _p("p", "query", False, P_INT)])
    add("samename", "query_opt_header_req", [_p("p", "query", False, P_INT), _p("p", "header", True, P_STR)])
    add("samename", "path_query", [_p("p", "path", True, P_INT), _p("p", "query", False, P_ENUM)])
    add("samename", "cookie_query_both_required", [_p("p", "cookie", True, P_INT), _p("p", "query", True, P_ENUM)])
    add("samename", "swagger2_query_header", [_p("p", "query", True, P_INT), _p("p", "header", True, P_STR)], spec="2.0")
    # ---- media: several media types in one request body
    add("media", "json_xml", [], bodies=[J_INT, X_ENUM], reversed_modes=True)
    add("media", "xml_json", [], bodies=[X_ENUM, J_INT])
    add("media", "json_xml_required_query", [_p("q", "query", True, P_INT)], bodies=[J_INT, X_ENUM])
    add("media", "xml_json_optional_header", [_p("X-H", "header", False, P_STR)], bodies=[X_ENUM, J_INT])
    add("media", "object_text_optional_body", [], bodies=[J_OBJ, T_STR], body_required=False)
    add("media", "three_media_types", [], bodies=[T_STR2, J_INT, X_ENUM])
    add("media", "same_schema_twice", [], bodies=[J_INT, X_INT])
    add("media", "json_xml_31", [], bodies=[J_INT, X_ENUM], spec="3.1")
    add("media", "swagger2_two_consumes", [], bodies=[J_INT, X_INT], spec="2.0")
    # ---- methods: the unexpected_methods argument and the shape of the path item
    q = [_p("q", "query", True, P_INT)]
    add("methods", "custom_declared_and_undeclared", q, bodies=[J_INT], unexpected=["post", "patch"])
    add("methods", "custom_head", q, unexpected=["head"], reversed_modes=True)
    add("methods", "custom_only_declared", q, other_methods=["put"], unexpected=["get", "put"])
    add("methods", "custom_head_declared", [], other_methods=["head"], unexpected=["head", "trace"])
    add("methods", "all_default_methods_declared", q, other_methods=[m for m in ALL_DEFAULT_METHODS if m != "get"])
    add("methods", "head_declared_default_set", [], other_methods=["head"])
    add("methods", "path_level_parameters", [_p("X-P", "header", False, P_STR)], other_methods=["put"], summary=True,
        path_level=[_p("q", "query", True, P_INT)], bodies=[J_INT])
    add("methods", "swagger2_custom", q, spec="2.0", other_methods=["delete"], unexpected=["delete", "options", "head"])
    return out
