"""C19 review round 2 - additional action alphabets for the registration-history search of props/c19.py.

Pure data (JSON-able actions); the semantics of every condition used here is written down in props/c19.py ``term_matches`` from
docs/extending.rst "Applying Hooks to Specific API Operations" and docs/auth.rst "Conditional Authentication":

  * conditions path / method / name / tag / operation_id, each a single string or a list of options, each with a ``_regex`` form taking
    a string or a compiled regex; a custom function as the first positional argument;
  * all conditions within one term are AND-ed, the terms are OR-ed, skip_for excludes.

The document of props/c19.py gives GET /a  tags [x]    operationId getA
                                   POST /a tags [x, y] operationId postA
                                   GET /b  no tags, no operationId   (a tag / operation_id condition can never hold there)

Families (all depth 2 except ``identity``):
  terms     every condition of the documentation on hooks and on auth providers, two-condition terms (AND), two terms (OR), lower-case and
            mixed-case method values, compiled regex with a flag, regexes that need ``search`` semantics, custom functions
  kinds     every verb x container hook kind (4 x 6) + before_add_examples, each with a filter of its own
  identity  one function object under two hook names / on two scopes; unregister on the other scope; unregister of a function that was never
            registered but carries the same __name__  (depth 3: register, share, unregister)
  derived   the history is observed through a schema derived from the registered one by include() / exclude()
  graphql   the same search on a GraphQL schema (body / query / case hooks, name conditions)
"""

from __future__ import annotations


def ap(kw: dict) -> list:
    return ["apply", kw]


def sk(kw: dict) -> list:
    return ["skip", kw]


def H(scope: str, form: str, kind: str, *filt: list) -> dict:
    return {"t": "hook", "scope": scope, "form": form, "kind": kind, "filter": list(filt)}


def AU(scope: str, *filt: list, via: str = "class", cache: bool = True) -> dict:
    return {"t": "auth", "scope": scope, "filter": list(filt), "via": via, "cache": cache}


GET = {"method": "GET"}
POST = {"method": "POST"}
PA = {"path": "/a"}
PB = {"path": "/b"}

# --- filter terms -------------------------------------------------------------------------------------------------------------------------
# name -> filter spec; the comment gives the operations the spec selects (worked out by hand from the documentation - the check itself
# uses props/c19.py own_filter_matches, and `EXPECTED_BY_HAND` below is cross-checked against it once per run as a guard of the model)
TERMS: dict[str, list] = {
    "and2": [ap({"method": "GET", "path": "/a"})],
    "skip_and2": [sk({"method": "GET", "path": "/a"})],
    "or2": [ap(PB), ap(POST)],
    "skip_or2": [sk(PB), sk(POST)],
    "method_lower": [ap({"method": "get"})],
    "method_list_mixed_case": [sk({"method": ["post", "Put"]})],
    "tag_second": [ap({"tag": "y"})],
    "skip_tag": [sk({"tag": "x"})],
    "tag_list": [ap({"tag": ["z", "y"]})],
    "tag_and_method": [ap({"tag": "x", "method": "POST"})],
    "operation_id": [ap({"operation_id": "getA"})],
    "skip_operation_id_list": [sk({"operation_id": ["postA", "nope"]})],
    "name": [ap({"name": "POST /a"})],
    "name_list": [ap({"name": ["GET /b", "GET /a"]})],
    "path_list": [ap({"path": ["/c", "/b"]})],
    "path_regex_search": [ap({"path_regex": "b$"})],
    "name_regex": [ap({"name_regex": "^GET "})],
    "method_regex": [ap({"method_regex": "^P"})],
    "tag_regex": [ap({"tag_regex": "^y$"})],
    "operation_id_regex": [ap({"operation_id_regex": "A$"})],
    "skip_operation_id_regex": [sk({"operation_id_regex": "^get"})],
    "compiled_regex_flag": [ap({"path_regex": {"compiled": "^/A$", "flags": "I"}})],
    "func": [ap({"func": "is_b"})],
    "skip_func": [sk({"func": "is_post"})],
    "path_skip_tag": [ap(PA), sk({"tag": "y"})],
}

G_A, P_A, G_B = "GET /a", "POST /a", "GET /b"
EXPECTED_BY_HAND: dict[str, list[str]] = {
    "and2": [G_A],
    "skip_and2": [P_A, G_B],
    "or2": [P_A, G_B],
    "skip_or2": [G_A],
    "method_lower": [G_A, G_B],
    "method_list_mixed_case": [G_A, G_B],
    "tag_second": [P_A],
    "skip_tag": [G_B],
    "tag_list": [P_A],
    "tag_and_method": [P_A],
    "operation_id": [G_A],
    "skip_operation_id_list": [G_A, G_B],
    "name": [P_A],
    "name_list": [G_A, G_B],
    "path_list": [G_B],
    "path_regex_search": [G_B],
    "name_regex": [G_A, G_B],
    "method_regex": [P_A],
    "tag_regex": [P_A],
    "operation_id_regex": [G_A, P_A],
    "skip_operation_id_regex": [P_A, G_B],
    "compiled_regex_flag": [G_A, P_A],
    "func": [G_B],
    "skip_func": [G_A, G_B],
    "path_skip_tag": [G_A],
}


def terms_alphabet() -> list[dict]:
    t = TERMS
    hooks = [
        H("S", "fn", "map_query", *t["and2"]),
        H("S", "fn", "filter_query", *t["skip_and2"]),
        H("S", "fn", "map_query", *t["or2"]),
        H("G", "fn", "map_query", *t["skip_or2"]),
        H("S", "fn", "map_query", *t["method_lower"]),
        H("S", "str", "map_query", *t["method_list_mixed_case"]),
        H("S", "fn", "map_query", *t["tag_second"]),
        H("G", "fn", "before_generate_headers", *t["skip_tag"]),
        H("S", "str_filter", "map_query", *t["tag_list"]),
        H("S", "fn", "map_case", *t["tag_and_method"]),
        H("S", "fn", "map_query", *t["operation_id"]),
        H("G", "str", "map_query", *t["skip_operation_id_list"]),
        H("S", "fn", "before_add_examples", *t["name"]),
        H("S", "fn", "map_query", *t["name_list"]),
        H("S2", "fn", "map_query", *t["path_list"]),
        H("S", "fn", "map_query", *t["path_regex_search"]),
        H("S", "fn", "flatmap_query", *t["name_regex"]),
        H("S", "fn", "map_query", *t["method_regex"]),
        H("S", "fn", "map_query", *t["tag_regex"]),
        H("G", "fn", "map_query", *t["operation_id_regex"]),
        H("S", "str_filter", "filter_query", *t["skip_operation_id_regex"]),
        H("S", "fn", "map_query", *t["compiled_regex_flag"]),
        H("S", "fn", "map_query", *t["func"]),
        H("G", "fn", "filter_query", *t["skip_func"]),
        H("S", "fn", "map_headers", *t["path_skip_tag"]),
    ]
    auth = [
        AU("G", *t["and2"]),
        AU("S", *t["or2"]),
        AU("S", *t["method_lower"]),
        AU("S", *t["tag_second"]),
        AU("G", *t["skip_operation_id_list"]),
        AU("T", *t["name_regex"]),
        AU("G", *t["func"]),
        AU("S", *t["compiled_regex_flag"], via="requests"),
        AU("S", sk(PA), via="requests"),
        AU("G", ap(PA), sk(POST), via="requests"),
        AU("T", *t["skip_tag"]),
    ]
    return hooks + auth


VERBS = ("before_generate", "filter", "map", "flatmap")
CONTAINERS = ("path_parameters", "headers", "cookies", "query", "body", "case")


def kinds_alphabet() -> list[dict]:
    """Every verb x container once with a filter of its own (four filter shapes rotate), on the schema dispatcher; the verbs once more on
    the global dispatcher; unfiltered test-scope hooks for the kinds the quick alphabet does not have."""
    # each of the four shapes selects POST /a (the only operation with a body) and leaves out at least one operation
    shapes = [[ap(PA)], [sk({"method": "GET"})], [ap(POST)], [sk(PB)]]
    out = []
    for ci, cont in enumerate(CONTAINERS):
        for vi, verb in enumerate(VERBS):
            out.append(H("S", "fn", f"{verb}_{cont}", *shapes[(vi + ci) % len(shapes)]))
    out += [
        H("G", "fn", "flatmap_query", ap(PB)),
        H("G", "fn", "filter_case", sk(PA)),
        H("G", "str", "before_generate_case", ap(POST)),
        H("G", "fn", "map_body", sk(GET)),
        H("S", "str_filter", "flatmap_case", ap(PB)),
        H("S", "fn", "before_add_examples", sk(PB)),
        H("T", "apply", "flatmap_case"),
        H("T", "apply_name", "filter_case"),
        H("T", "apply", "map_cookies"),
        {"t": "unreg", "i": 0},
        {"t": "unreg_all", "scope": "S"},
    ]
    return out


def identity_alphabet() -> list[dict]:
    return [
        H("G", "fn", "map_query", ap(GET)),
        H("S", "str", "map_query", sk(PA)),
        H("S", "fn", "before_generate_headers"),
        H("G", "str_filter", "filter_query", ap(PA)),
        H("T", "apply", "map_query"),
        {"t": "alias", "i": 0},
        {"t": "twin", "i": 0},
        {"t": "unreg", "i": 0},
        {"t": "unreg", "i": 1},
        {"t": "unreg_other_scope", "i": 0},
        {"t": "unreg_foreign", "scope": "G"},
        {"t": "unreg_foreign", "scope": "S"},
        {"t": "unreg_all", "scope": "G"},
        {"t": "unreg_all", "scope": "S"},
        {"t": "rehook", "i": 0},
    ]


def derived_alphabet() -> list[dict]:
    return [
        H("S", "fn", "map_query", ap(GET)),
        H("S", "str", "map_query"),
        H("S", "fn", "filter_body", ap(PA)),
        H("S", "fn", "map_case", sk(PB)),
        H("S", "fn", "before_add_examples", ap(PA)),
        H("G", "fn", "map_query", sk(PA)),
        H("T", "apply", "map_query"),
        AU("S"),
        AU("S", ap(PA)),
        AU("G", sk(GET)),
        {"t": "unreg", "i": 0},
        {"t": "unreg_all", "scope": "S"},
        {"t": "auth_unreg", "scope": "S"},
    ]


def graphql_alphabet() -> list[dict]:
    """Operations Query.getBooks, Query.getAuthors, Mutation.addBook.  Only conditions the documentation defines for GraphQL are used: name
    (``Query.getUsers``), its list and regex forms, custom functions; tag / operation_id conditions "come from" Open API fields, so on a
    GraphQL operation they hold for no value - the values used here are not even GraphQL names."""
    return [
        H("S", "fn", "map_body", ap({"name": "Query.getBooks"})),
        H("S", "fn", "filter_body", sk({"name": ["Query.getAuthors", "Mutation.addBook"]})),
        H("S", "str", "before_generate_body", ap({"name_regex": "^Query[.]"})),
        H("G", "fn", "flatmap_body", sk({"name_regex": "Book"})),
        H("G", "fn", "map_query"),
        H("S", "fn", "map_query", ap({"func": "is_mutation"})),
        H("S", "fn", "map_case", sk({"tag": "no-such-tag"})),
        H("S", "fn", "map_body", ap({"tag": "no-such-tag"})),
        H("S", "fn", "map_body", sk({"operation_id": "legacy-op"})),
        H("G", "fn", "map_query", ap({"operation_id_regex": "^legacy-"})),
        H("T", "apply", "map_body"),
        H("T", "apply", "before_generate_case"),
        AU("S", ap({"name": "Mutation.addBook"})),
        AU("G", sk({"name_regex": "^Query"})),
        {"t": "unreg", "i": 0},
        {"t": "unreg_all", "scope": "S"},
    ]


FAMILIES = {
    "graphql": (graphql_alphabet, 2),
    "terms": (terms_alphabet, 2),
    "kinds": (kinds_alphabet, 2),
    "identity": (identity_alphabet, 3),
    "derived_include": (derived_alphabet, 2),
    "derived_exclude": (derived_alphabet, 2),
}
