"""E3 - controlled scheduler for real threads (CHESS-style stateless exploration with iterative bounding).

Exactly one logical thread runs at a time; every synchronisation operation of the library goes through a shim that
calls ``Scheduler.point`` first, where the next thread to run is *chosen* from a script (a list of choice indices).
Switching away from a thread that could continue is a pre-emption (cost (1, 0)); letting a timed wait fire although
another thread could run also costs a pre-emption; environment events (Ctrl-C, consumer stop) cost (0, 1).
``explore`` enumerates every schedule within the (pre-emption, environment) bounds by depth-first search over choice
prefixes.  Nothing is sampled.
"""

from __future__ import annotations

import queue as _real_queue
import threading as _real_threading
import types
from dataclasses import dataclass, field
from typing import Any, Callable, Iterator

HORIZON = 5000


class SchedAbort(BaseException):
    """Raised inside parked threads when an execution is torn down (deadlock / horizon / end of main)."""


class Divergence(Exception):
    pass


@dataclass
class Pending:
    desc: str
    enabled: Callable[[], bool]
    passive: Callable[[], bool]


@dataclass
class LThread:
    tid: int
    name: str
    sem: Any = field(default_factory=lambda: _real_threading.Semaphore(0))
    pending: Pending | None = None
    finished: bool = False
    real: Any = None
    timeout_fired: bool = False
    interrupt: bool = False


@dataclass
class PointRecord:
    thread: int
    desc: str
    labels: list[str]  # one per candidate
    costs: list[tuple[int, int]]
    chosen: int


class Scheduler:
    def __init__(self, script: list[int], *, allow_interrupt: bool = False, expected: list[int] | None = None,
                 ki_filter: Callable[[str], bool] | None = None) -> None:
        self.script = script
        self.expected = expected
        self.allow_interrupt = allow_interrupt
        self.ki_filter = ki_filter
        self.interrupt_used = False
        self.threads: list[LThread] = []
        self.current: LThread | None = None
        self.trace: list[PointRecord] = []
        self.aborted: str | None = None
        self.clock = 0  # logical time = number of scheduling decisions taken
        self.objects: list[Any] = []  # shim objects in creation order (state hashing)
        self.put_log: list[tuple[Any, int]] = []
        self.states: set[int] = set()
        self.switches = 0
        self._by_ident: dict[int, LThread] = {}
        main = LThread(0, "main")
        main.real = _real_threading.current_thread()
        self.threads.append(main)
        self._by_ident[_real_threading.get_ident()] = main
        self.current = main

    # ---- identity ---------------------------------------------------------------------------------------------
    def me(self) -> LThread | None:
        return self._by_ident.get(_real_threading.get_ident())

    # ---- choice -----------------------------------------------------------------------------------------------
    def _choose(self, me: LThread, desc: str, labels: list[str], costs: list[tuple[int, int]]) -> int:
        i = len(self.trace)
        if i >= HORIZON:
            self._abort("horizon")
            raise SchedAbort
        n = len(labels)
        if i < len(self.script):
            idx = self.script[i]
            if self.expected is not None and i < len(self.expected) and self.expected[i] != n:
                raise Divergence(f"point {i} {desc}: {n} candidates, expected {self.expected[i]}")
            if idx >= n:
                raise Divergence(f"point {i} {desc}: choice {idx} out of {n}")
        else:
            idx = 0
        self.trace.append(PointRecord(me.tid, desc, labels, costs, idx))
        self.clock += 1
        self.states.add(hash(self._state_key()))
        return idx

    def _state_key(self) -> tuple:
        return (
            tuple((t.tid, t.pending.desc if t.pending else "-", t.finished) for t in self.threads),
            tuple(o.state_key() for o in self.objects),
        )

    # ---- scheduling points ----------------------------------------------------------------------------------------
    def point(self, desc: str, enabled: Callable[[], bool] | None = None, passive: Callable[[], bool] | None = None) -> None:
        me = self.me()
        if me is None or self.aborted:
            if self.aborted and me is not None:
                raise SchedAbort
            return  # a thread the scheduler does not know (never happens for library threads) runs free
        me.pending = Pending(desc, enabled or (lambda: True), passive or (lambda: False))
        me.timeout_fired = False
        self._decide(me)
        me.pending = None
        if me.interrupt:
            me.interrupt = False
            raise KeyboardInterrupt

    def _candidates(self, me: LThread | None) -> tuple[list[tuple[LThread, bool]], bool]:
        """Ordered candidates [(thread, is_passive)], and whether the current thread could simply continue."""
        order = []
        if me is not None and not me.finished:
            order.append(me)
        order += [t for t in self.threads if t is not me and not t.finished]
        active, passive = [], []
        for t in order:
            if t.pending is None:
                continue
            if t.pending.enabled():
                active.append(t)
            elif t.pending.passive():
                passive.append(t)
        me_active = me is not None and me in active
        return [(t, False) for t in active] + [(t, True) for t in passive], me_active

    def _decide(self, me: LThread) -> None:
        cands, me_active = self._candidates(me)
        labels: list[str] = []
        costs: list[tuple[int, int]] = []
        has_active = any(not p for _, p in cands)
        for t, is_passive in cands:
            if is_passive:
                cost = (1, 0) if has_active else (0, 0)
            elif t is me:
                cost = (0, 0)
            else:
                cost = (1, 0) if me_active else (0, 0)
            labels.append(f"T{t.tid}{'~' if is_passive else ''}")
            costs.append(cost)
        ki_index = None
        if (self.allow_interrupt and not self.interrupt_used and me.tid == 0
                and (self.ki_filter is None or self.ki_filter(me.pending.desc if me.pending else ""))):
            ki_index = len(labels)
            labels.append("KI")
            costs.append((0, 1))
        if not cands:
            self._abort("deadlock")
            raise SchedAbort
        idx = self._choose(me, me.pending.desc if me.pending else "?", labels, costs)
        if ki_index is not None and idx == ki_index:
            self.interrupt_used = True
            me.interrupt = True
            return
        chosen, is_passive = cands[idx]
        if is_passive:
            chosen.timeout_fired = True
        if chosen is me:
            return
        self._transfer(me, chosen)

    def _transfer(self, me: LThread, chosen: LThread) -> None:
        self.switches += 1
        self.current = chosen
        chosen.sem.release()
        me.sem.acquire()
        if self.aborted:
            raise SchedAbort

    def env_choice(self, desc: str, options: list[str]) -> int:
        """An environment decision of the main thread: option 0 is the default, any other costs one env deviation."""
        me = self.me()
        assert me is not None
        costs = [(0, 0)] + [(0, 1)] * (len(options) - 1)
        return self._choose(me, desc, options, costs)

    # ---- thread lifecycle -------------------------------------------------------------------------------------------
    def spawn(self, name: str, target: Callable[[], None]) -> LThread:
        lt = LThread(len(self.threads), name)
        self.threads.append(lt)
        ready = _real_threading.Event()

        def runner() -> None:
            self._by_ident[_real_threading.get_ident()] = lt
            lt.pending = Pending("start", lambda: True, lambda: False)
            ready.set()
            lt.sem.acquire()
            lt.pending = None
            try:
                if not self.aborted:
                    target()
            except SchedAbort:
                pass
            except BaseException as exc:  # noqa: BLE001 - a thread dying with an exception is an observation
                lt.error = exc  # type: ignore[attr-defined]
            finally:
                lt.finished = True
                lt.pending = None
                if not self.aborted:
                    self._finish(lt)

        real = _real_threading.Thread(target=runner, name=name, daemon=True)
        lt.real = real
        real.start()
        ready.wait()
        return lt

    def _finish(self, me: LThread) -> None:
        """The running thread ends: hand the baton to someone else (a free switch)."""
        cands, _ = self._candidates(None)
        if not cands:
            self._abort("deadlock")
            return
        labels, costs = [], []
        has_active = any(not p for _, p in cands)
        for t, is_passive in cands:
            labels.append(f"T{t.tid}{'~' if is_passive else ''}")
            costs.append((1, 0) if (is_passive and has_active) else (0, 0))
        try:
            idx = self._choose(me, "exit", labels, costs)
        except SchedAbort:
            return
        chosen, is_passive = cands[idx]
        if is_passive:
            chosen.timeout_fired = True
        self.switches += 1
        self.current = chosen
        chosen.sem.release()

    def _abort(self, reason: str) -> None:
        if self.aborted:
            return
        self.aborted = reason
        for t in self.threads:
            t.sem.release()

    def shutdown(self) -> list[str]:
        """End of an execution (called by main): release everything still parked; returns names of leaked threads."""
        leaked = []
        if not self.aborted:
            self.aborted = "end"
        for t in self.threads[1:]:
            if not t.finished:
                t.sem.release()
        for t in self.threads[1:]:
            if t.real is not None:
                t.real.join(timeout=5)
                if t.real.is_alive():
                    leaked.append(t.name)
        return leaked

    # ---- shim factories -----------------------------------------------------------------------------------------------
    def threading_namespace(self) -> Any:
        sched = self
        ns = types.SimpleNamespace()

        class Thread:
            def __init__(self, group=None, target=None, name=None, args=(), kwargs=None, *, daemon=None):
                self._target, self._args, self._kwargs = target, args, kwargs or {}
                self.name = name or "thread"
                self.daemon = daemon
                self._lt: LThread | None = None

            def start(self) -> None:
                sched.point(f"start:{self.name}")
                self._lt = sched.spawn(self.name, lambda: self._target(*self._args, **self._kwargs))

            def is_alive(self) -> bool:
                sched.point(f"is_alive:{self.name}")
                return self._lt is not None and not self._lt.finished

            def join(self, timeout=None) -> None:
                lt = self._lt
                if lt is None:
                    return
                sched.point(f"join:{self.name}", enabled=lambda: lt.finished, passive=lambda: timeout is not None)

        class Lock:
            def __init__(self) -> None:
                self.locked_by: int | None = None
                sched.objects.append(self)

            def state_key(self) -> tuple:
                return ("lock", self.locked_by)

            def acquire(self, blocking=True, timeout=-1) -> bool:
                sched.point("lock.acquire", enabled=lambda: self.locked_by is None,
                            passive=lambda: (not blocking) or (timeout is not None and timeout >= 0))
                if self.locked_by is not None:
                    return False
                me = sched.me()
                self.locked_by = me.tid if me else -1
                return True

            def release(self) -> None:
                self.locked_by = None

            def locked(self) -> bool:
                return self.locked_by is not None

            def __enter__(self):
                self.acquire()
                return self

            def __exit__(self, *a) -> None:
                self.release()

        class Event:
            def __init__(self) -> None:
                self.flag = False
                self.set_at: int | None = None
                sched.objects.append(self)

            def state_key(self) -> tuple:
                return ("event", self.flag)

            def set(self) -> None:
                sched.point("event.set")
                if not self.flag:
                    self.set_at = sched.clock
                self.flag = True

            def clear(self) -> None:
                self.flag = False

            def is_set(self) -> bool:
                sched.point("event.is_set")
                return self.flag

            def wait(self, timeout=None) -> bool:
                sched.point("event.wait", enabled=lambda: self.flag, passive=lambda: timeout is not None)
                return self.flag

        ns.Thread, ns.Lock, ns.RLock, ns.Event = Thread, Lock, Lock, Event
        ns.current_thread = _real_threading.current_thread
        ns.get_ident = _real_threading.get_ident
        ns.local = _real_threading.local
        return ns

    def queue_class(self) -> Any:
        sched = self

        class Queue:
            def __init__(self, maxsize: int = 0) -> None:
                self.items: list[Any] = []
                sched.objects.append(self)

            def state_key(self) -> tuple:
                return ("queue", tuple(type(i).__name__ for i in self.items))

            def put(self, item: Any, block=True, timeout=None) -> None:
                sched.point(f"queue.put:{type(item).__name__}")
                sched.put_log.append((item, sched.clock))  # logical time at which the producer handed the item over
                self.items.append(item)

            put_nowait = put

            def get(self, block=True, timeout=None) -> Any:
                sched.point("queue.get", enabled=lambda: bool(self.items),
                            passive=lambda: (not block) or timeout is not None)
                if self.items:
                    return self.items.pop(0)
                raise _real_queue.Empty

            def get_nowait(self) -> Any:
                return self.get(block=False)

            def qsize(self) -> int:
                return len(self.items)

            def empty(self) -> bool:
                return not self.items

        return Queue

    def queue_namespace(self) -> Any:
        return types.SimpleNamespace(Queue=self.queue_class(), Empty=_real_queue.Empty, Full=_real_queue.Full)


# ---- exploration ------------------------------------------------------------------------------------------------------

@dataclass
class ScheduleRun:
    choices: list[int]
    counts: list[int]
    trace: list[PointRecord]
    outcome: Any
    aborted: str | None
    leaked: list[str]
    states: set
    switches: int


@dataclass
class ExploreStats:
    executions: int = 0
    points: int = 0
    states: set = field(default_factory=set)
    capped: bool = False
    max_points: int = 0


def run_schedule(body: Callable[[Scheduler], Any], script: list[int], *, allow_interrupt: bool = False,
                 expected: list[int] | None = None, ki_filter: Callable[[str], bool] | None = None) -> ScheduleRun:
    sched = Scheduler(list(script), allow_interrupt=allow_interrupt, expected=expected, ki_filter=ki_filter)
    outcome = None
    try:
        outcome = body(sched)
    except SchedAbort:
        outcome = None
    finally:
        leaked = sched.shutdown()
    return ScheduleRun(
        choices=[p.chosen for p in sched.trace], counts=[len(p.labels) for p in sched.trace], trace=sched.trace,
        outcome=outcome, aborted=sched.aborted if sched.aborted != "end" else None, leaked=leaked, states=sched.states,
        switches=sched.switches,
    )


def explore(body: Callable[[Scheduler], Any], *, preemptions: int, env: int = 0, allow_interrupt: bool = False,
            max_executions: int | None = None, stats: ExploreStats | None = None,
            ki_filter: Callable[[str], bool] | None = None, total: int | None = None,
            shard: tuple[int, int] | None = None) -> Iterator[ScheduleRun]:
    """All schedules of ``body`` with at most ``preemptions`` pre-emptions and ``env`` environment deviations
    (and, if given, at most ``total`` deviations of both kinds together)."""
    if stats is None:
        stats = ExploreStats()
    stack: list[tuple[list[int], list[int]]] = [([], [])]
    while stack:
        if max_executions is not None and stats.executions >= max_executions:
            stats.capped = True
            return
        prefix, expected = stack.pop()
        run = run_schedule(body, prefix, allow_interrupt=allow_interrupt and env > 0, expected=expected, ki_filter=ki_filter)
        if len(run.choices) < len(prefix):
            raise Divergence(f"execution ended after {len(run.choices)} points while replaying {len(prefix)}")
        stats.executions += 1
        stats.points += len(run.choices) - len(prefix)
        stats.max_points = max(stats.max_points, len(run.choices))
        stats.states |= run.states
        yield run
        used_p = used_e = 0
        pending = []
        for i, rec in enumerate(run.trace):
            if i >= len(prefix):
                if shard is not None and not prefix and i % shard[1] != shard[0]:
                    # work distribution: the first deviation of this shard sits at a position == k (mod n);
                    # the union of the n shards is exactly the unsharded exploration (the root run is repeated)
                    cp, ce = rec.costs[rec.chosen]
                    used_p += cp
                    used_e += ce
                    continue
                for alt in range(1, len(rec.labels)):
                    cp, ce = rec.costs[alt]
                    if used_p + cp <= preemptions and used_e + ce <= env and (
                        total is None or used_p + cp + used_e + ce <= total
                    ):
                        pending.append((run.choices[:i] + [alt], run.counts[: i + 1]))
            cp, ce = rec.costs[rec.chosen]
            used_p += cp
            used_e += ce
        stack.extend(reversed(pending))
