"""In-process HTTP seam: every `requests` call to http://verif.local is logged and answered by a scripted handler.

No sockets, no extra threads: the handler runs in the calling (worker) thread, so the scheduler of E3 owns it.
"""

from __future__ import annotations

import contextlib
import io
import json
import threading
from dataclasses import dataclass, field
from typing import Any, Callable, Iterator
from urllib.parse import parse_qsl, urlsplit

import requests
from requests.adapters import HTTPAdapter
from urllib3 import HTTPResponse
from urllib3._collections import HTTPHeaderDict

BASE_URL = "http://verif.local"
CASE_ID_HEADER = "X-Schemathesis-TestCaseId"


@dataclass
class Exchange:
    index: int
    method: str
    url: str
    path: str
    query: list
    headers: dict
    body: bytes | None
    thread: str
    status: int | None = None
    response_headers: list = field(default_factory=list)
    response_body: bytes = b""
    time: int = 0  # logical time (set by the scheduler when present)

    def key(self) -> tuple:
        """What C12/C13 compare: everything but the per-case id header."""
        headers = tuple(sorted((k.lower(), v) for k, v in self.headers.items() if k.lower() != CASE_ID_HEADER.lower()))
        return (self.method, self.url, headers, self.body)

    def as_json(self) -> dict:
        return {
            "method": self.method, "url": self.url,
            "headers": {k: v for k, v in self.headers.items() if k.lower() != CASE_ID_HEADER.lower()},
            "body": None if self.body is None else self.body.decode("utf-8", "backslashreplace"),
            "status": self.status, "thread": self.thread,
        }


Handler = Callable[[Exchange], tuple]


class Log:
    def __init__(self) -> None:
        self.exchanges: list[Exchange] = []
        self._lock = threading.Lock()  # a real lock on purpose: held for an append only, never across a scheduling point

    def add(self, exchange: Exchange) -> None:
        with self._lock:
            exchange.index = len(self.exchanges)
            self.exchanges.append(exchange)


class InProcessAdapter(HTTPAdapter):
    def __init__(self, handler: Handler, log: Log, on_send: Callable[[Exchange], None] | None = None) -> None:
        super().__init__()
        self.handler = handler
        self.log = log
        self.on_send = on_send

    def send(self, request: requests.PreparedRequest, **kwargs: Any) -> requests.Response:  # type: ignore[override]
        body = request.body
        if isinstance(body, str):
            body = body.encode("utf-8")
        elif body is not None and not isinstance(body, bytes):
            try:
                body = b"".join(body)  # generators / file-like
            except TypeError:
                body = body.read()
        parts = urlsplit(request.url)
        exchange = Exchange(
            index=-1, method=request.method or "", url=request.url or "", path=parts.path,
            query=parse_qsl(parts.query, keep_blank_values=True), headers=dict(request.headers), body=body,
            thread=threading.current_thread().name,
        )
        self.log.add(exchange)
        if self.on_send is not None:
            self.on_send(exchange)  # scheduling point / fault injection; may raise
        result = self.handler(exchange)
        status, headers, payload = result
        if isinstance(payload, (dict, list)) or payload is None and False:
            payload = json.dumps(payload).encode()
        if isinstance(payload, str):
            payload = payload.encode("utf-8")
        exchange.status = status
        exchange.response_headers = list(headers)
        exchange.response_body = payload
        hdrs = HTTPHeaderDict()
        for k, v in headers:
            hdrs.add(k, v)
        if "content-length" not in {k.lower() for k, _ in headers}:
            hdrs.add("Content-Length", str(len(payload)))
        raw = HTTPResponse(body=io.BytesIO(payload), headers=hdrs, status=status, version=11, reason=_REASONS.get(status, "Status"),
                           preload_content=False, decode_content=False, request_method=request.method)
        return self.build_response(request, raw)


_REASONS = {200: "OK", 201: "Created", 204: "No Content", 400: "Bad Request", 401: "Unauthorized", 403: "Forbidden",
            404: "Not Found", 405: "Method Not Allowed", 406: "Not Acceptable", 422: "Unprocessable Entity", 500: "Internal Server Error"}

_original_get_adapter = requests.Session.get_adapter
_active: list[InProcessAdapter] = []


def _get_adapter(self: requests.Session, url: str) -> Any:
    if _active and url.lower().startswith(BASE_URL):
        return _active[-1]
    return _original_get_adapter(self, url)


@contextlib.contextmanager
def installed(handler: Handler, on_send: Callable[[Exchange], None] | None = None) -> Iterator[Log]:
    log = Log()
    adapter = InProcessAdapter(handler, log, on_send)
    _active.append(adapter)
    requests.Session.get_adapter = _get_adapter  # type: ignore[method-assign]
    try:
        yield log
    finally:
        _active.remove(adapter)
        if not _active:
            requests.Session.get_adapter = _original_get_adapter  # type: ignore[method-assign]


def json_response(status: int, payload: Any, extra_headers: list | None = None) -> tuple:
    return status, [("Content-Type", "application/json"), *(extra_headers or [])], json.dumps(payload).encode()


def ok_handler(exchange: Exchange) -> tuple:
    return json_response(200, {})
