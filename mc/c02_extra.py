"""E2 enumerators added by review round 2 of C02 (pure data: no schemathesis, no props imports).

Every function returns a list of *specs of work items*: dicts with the keys ``spec, params, body, family, shape, modes, d`` and
the optional keys ``entry`` (how the strategy / run is obtained), ``omit_required`` (``required: false`` is left out instead
of written) that props/c02.py turns into work items.  A body is ``{"required": bool, "schema": S}`` or, with several media
types, ``{"required": bool, "content": [[media_type, S], ...]}`` (a list, so that the WRITING ORDER is part of the item).

Dimensions (all of them are inside the quantifier of C02: "all OpenAPI documents/operations, all schemas including ones that
cannot be negated, modes=[negative] and [positive, negative]"):

* ``entry_point_items``    the same operation reached through the other API entry points and with the configuration stored on
                           the schema only / passed per call only (lesson 8)
* ``engine_items``         one deterministic run of the real engine (fuzzing phase): skipped vs failed vs tested
* ``multi_input_items``    inputs in two and three locations of which one is negatable, both writing orders, two parameters
                           in one location, only-optional parameters in two locations, optional cookie (lessons 1, 6, 7)
* ``accept_all_items``     schemas that accept every value without being ``{}``: neutral keywords written out, annotation-only
                           schemas, combinators with an accept-all branch, the list of all types; enum with null (lessons 2, 3)
* ``writing_variant_items`` ``required`` left out, a body with two media types of which one is negatable (lessons 2, 6)
"""

from __future__ import annotations

import copy
from typing import Any

N, PN = "N", "PN"
INT_MIN = {"type": "integer", "minimum": 1}
STR = {"type": "string"}
INT = {"type": "integer"}


def P(loc: str, schema: dict, required: bool = True, name: str | None = None) -> dict:
    if name is None:
        name = "X-P" if loc == "header" else "p"
    return {"name": name, "in": loc, "required": True if loc == "path" else required, "schema": copy.deepcopy(schema)}


def B(schema: dict, required: bool = True) -> dict:
    return {"required": required, "schema": copy.deepcopy(schema)}


def MB(content: list[tuple[str, dict]], required: bool = True) -> dict:
    return {"required": required, "content": [[mt, copy.deepcopy(s)] for mt, s in content]}


def spec_item(spec: str, params: list[dict], body: dict | None, family: str, shape: str, *, modes: list[str] | None = None,
              d: int = 1, **extra: Any) -> dict:
    return {"spec": spec, "params": params, "body": body, "family": family, "shape": shape, "modes": modes or [N], "d": d, **extra}


# -- entry points ------------------------------------------------------------------------------------------------------

ENTRIES = ("stored", "call", "schema", "map")


def entry_point_items(tier: str) -> list[dict]:
    """stored: configure(generation=...) + operation.as_strategy(generation_mode=NEGATIVE) (no per-call configuration);
    call: unconfigured schema + as_strategy(generation_mode=NEGATIVE, generation_config=...);
    schema: schema.as_strategy(...) of the one-operation document; map: schema["/path"].as_strategy(...)."""
    docs: list[tuple[str, list[dict], dict | None, str]] = [
        ("3.0", [P("header", STR, False)], None, "plain_string"),
        ("3.0", [], None, "no_inputs"),
        ("3.0", [], B({}, False), "accept_all_body"),
        ("3.0", [P("query", INT_MIN)], None, "single"),
        ("3.0", [P("header", STR), P("query", INT_MIN, True, "q")], None, "mixed"),
        ("2.0", [P("header", STR, False)], None, "plain_string"),
        ("2.0", [], B(INT_MIN), "single"),
        ("3.1", [P("cookie", STR, False)], None, "plain_string"),
        ("3.1", [P("query", INT_MIN)], None, "single"),
    ]
    if tier == "quick":
        docs = docs[:7]
    out = []
    for n, (spec, params, body, shape) in enumerate(docs):
        entries = ENTRIES if (spec == "3.0" or tier != "quick") else ("stored", "call")
        for entry in entries:
            out.append(spec_item(spec, copy.deepcopy(params), copy.deepcopy(body), "entry", shape, entry=entry,
                                 d=1 if tier == "quick" else 2))
    return out


def engine_items(tier: str) -> list[dict]:
    docs: list[tuple[str, list[dict], dict | None, str, list[str]]] = [
        ("3.0", [P("header", STR, False)], None, "plain_string", [N, PN]),
        ("3.0", [P("cookie", STR, False)], None, "plain_string", [N]),
        ("3.0", [P("path", STR)], None, "plain_string", [N]),
        ("3.0", [], B({}, False), "accept_all_body", [N, PN]),
        ("3.0", [], None, "no_inputs", [N]),
        ("3.0", [P("query", INT_MIN)], None, "single", [N, PN]),
        ("3.0", [], B(INT_MIN), "single", [N]),
        ("3.0", [P("path", STR), P("header", STR), P("query", INT_MIN, True, "q")], None, "mixed", [N]),
        ("3.0", [], B({"description": "d"}, False), "annotations_only", [N]),
        ("2.0", [P("header", STR, False)], None, "plain_string", [N]),
        ("2.0", [P("query", INT_MIN)], None, "single", [N]),
        ("3.1", [P("cookie", STR, False), P("header", STR, False)], None, "plain_string", [N]),
        ("3.1", [P("cookie", INT_MIN)], None, "single", [N]),
        # accept-all schemas other than {} / plain string in a parameter: the choice trees of these are 2 600+ paths wide
        # (header-value and header-name regexes), one engine run decides skipped / failed / tested in 0.3-3 s
        ("3.0", [P("cookie", {"minItems": 0}, False)], None, "accept_all_neutral", [N]),
        ("3.0", [P("header", {"minItems": 0}, False)], None, "accept_all_neutral", [N]),
        ("3.0", [P("cookie", {"uniqueItems": False}, False)], None, "accept_all_neutral", [N]),
        ("3.0", [P("header", {"anyOf": [{}, dict(INT_MIN)]}, False)], None, "accept_all_combinator", [N]),
        ("3.0", [P("query", {"description": "d"}, False)], None, "accept_all_annotations_only", [N]),
        ("3.0", [P("cookie", {"nullable": True}, False)], None, "accept_all_neutral", [N]),
        # Draft-6 `const` (OpenAPI 3.1) without a type: the choice tree has > 120 000 paths over the minimal alphabet
        ("3.1", [], B({"const": "a"}), "const", [N]),
        ("3.1", [], B({"type": "string", "const": "a"}), "const", [N]),
    ]
    if tier != "quick":
        docs += [
            ("3.0", [P("cookie", {"items": {}}, False)], None, "accept_all_neutral", [N]),
            ("3.0", [P("header", {"items": {}}, False)], None, "accept_all_neutral", [N]),
            ("3.0", [P("query", {"minItems": 0}, False)], None, "accept_all_neutral", [N]),
            ("3.0", [P("header", {"type": "string", "minLength": 0}, False)], None, "accept_all_neutral", [N]),
            ("3.0", [P("cookie", {"type": "string", "description": "d"}, False)], None, "accept_all_annotations_only", [N]),
            ("3.0", [], B({"default": 1}, False), "annotations_only", [N]),
        ]
    return [spec_item(spec, params, body, "engine", shape, modes=modes, entry="engine", d=0)
            for spec, params, body, shape, modes in docs]


# -- several inputs ----------------------------------------------------------------------------------------------------

def multi_input_items(tier: str) -> list[dict]:
    quick = tier == "quick"
    d = 1 if quick else 2
    rows: list[tuple[str, list[dict], dict | None, int]] = [
        # three locations, one negatable; the same parameters written in the opposite order
        ("3.0", [P("path", STR), P("header", STR), P("query", INT_MIN, True, "q")], None, 2),
        ("3.0", [P("query", INT_MIN, True, "q"), P("header", STR), P("path", STR)], None, d),
        ("3.0", [P("header", STR), P("cookie", STR)], B(INT_MIN), d),
        ("3.0", [P("path", INT), P("header", STR), P("cookie", STR, False)], None, d),
        ("2.0", [P("path", STR), P("header", STR)], B(INT_MIN), d),
        ("3.1", [P("path", STR), P("cookie", STR), P("query", INT_MIN, True, "q")], None, d),
        # header and cookie (the two locations that share the 'all values are strings' rule), one of them negatable
        ("3.0", [P("header", STR), P("cookie", INT_MIN, True, "c")], None, d),
        ("3.0", [P("cookie", STR, True, "c"), P("header", INT)], None, d),
        # three locations, none negatable
        ("3.0", [P("path", STR), P("header", STR, False), P("cookie", STR, False)], None, d),
        # two parameters in one location, one negatable, both writing orders
        ("3.0", [P("query", STR, False, "s"), P("query", INT_MIN, True, "q")], None, d),
        ("3.0", [P("query", INT_MIN, True, "q"), P("query", STR, False, "s")], None, d),
        ("3.0", [P("cookie", STR, False, "s"), P("cookie", INT, True, "c")], None, d),
        ("3.0", [P("cookie", INT, True, "c"), P("cookie", STR, False, "s")], None, d),
        ("3.0", [P("header", INT, True, "X-Q"), P("header", STR, False)], None, d),
        ("3.0", [P("path", INT, True, "r"), P("path", STR)], None, d),
        # only optional parameters: one location, two locations
        ("3.0", [P("cookie", INT_MIN, False)], None, d),
        ("2.0", [P("header", INT_MIN, False)], None, d),
        ("3.0", [P("header", INT, False), P("query", INT, False, "q")], None, d),
        ("3.0", [P("cookie", INT, False), P("query", INT, False, "q")], None, d),
        ("3.0", [P("query", INT_MIN, False, "q")], B(INT_MIN, False), d),
    ]
    return [spec_item(spec, params, body, "mixed", "multi", d=dd) for spec, params, body, dd in rows]


# -- schemas that accept every value -----------------------------------------------------------------------------------

ALL_TYPES = ["string", "number", "integer", "boolean", "null", "array", "object"]


def accept_all_schemas(spec: str) -> list[tuple[str, dict]]:
    """(shape, schema): every one accepts every JSON value.  'neutral' = validation keywords at their neutral value,
    'annotations_only' = no validation keyword at all, 'combinator' = a branch that accepts everything."""
    out: list[tuple[str, dict]] = [
        ("neutral", {"uniqueItems": False}),
        ("neutral", {"minItems": 0}),
        ("neutral", {"minProperties": 0}),
        ("neutral", {"required": []}),
        ("neutral", {"properties": {}}),
        ("neutral", {"items": {}}),
        ("neutral", {"properties": {}, "additionalProperties": True}),
        ("annotations_only", {"description": "d"}),
        ("annotations_only", {"default": 1}),
        ("annotations_only", {"title": "t", "example": 1}),
        ("combinator", {"allOf": [{}]}),
    ]
    if spec != "2.0":
        out += [
            ("combinator", {"anyOf": [{}, dict(INT_MIN)]}),
            ("combinator", {"anyOf": [dict(INT_MIN), {}]}),
            ("combinator", {"oneOf": [{}]}),
            ("combinator", {"not": {"not": {}}}),
        ]
    if spec == "3.0":
        out.append(("neutral", {"nullable": True}))
    if spec == "2.0":
        out.append(("neutral", {"x-nullable": True}))
    if spec == "3.1":
        out.append(("neutral", {"type": list(ALL_TYPES)}))
    return out


def accept_all_items(tier: str) -> list[dict]:
    quick = tier == "quick"
    out = []
    for spec in ("3.0", "2.0", "3.1"):
        for n, (shape, schema) in enumerate(accept_all_schemas(spec)):
            if quick and spec != "3.0" and shape != "neutral":
                continue
            if quick and shape == "annotations_only" and "description" not in schema:
                continue  # each costs a ~1 200-execution liveness tree (see KF-C02-R1): one in the quick tier
            out.append(spec_item(spec, [], B(schema, False), "unnegatable", "accept_all_" + shape))
            if spec == "3.0" and shape == "combinator":
                out.append(spec_item(spec, [], B(schema, False), "unnegatable", "accept_all_" + shape, modes=[PN]))
    # enumerations: single member, with null, null only
    enums: list[tuple[str, dict]] = [
        ("3.0", {"type": "integer", "enum": [1]}),
        ("3.0", {"type": "string", "nullable": True, "enum": ["x", None]}),
        ("3.0", {"enum": [None], "nullable": True}),
        ("2.0", {"type": "string", "x-nullable": True, "enum": ["x", None]}),
        ("3.1", {"type": ["string", "null"], "enum": ["x", None]}),
        ("3.1", {"enum": [None]}),
    ]
    for spec, schema in enums:
        out.append(spec_item(spec, [], B(schema), "misc", "enum", d=1 if quick else 2))
    # Draft-6 `const` (OpenAPI 3.1); `{const: "a"}` without a type is an engine item (its tree is > 120 000 paths wide)
    out.append(spec_item("3.1", [], B({"type": "integer", "const": 1}), "misc", "const", d=1))
    return out


# -- writing variants --------------------------------------------------------------------------------------------------

def writing_variant_items(tier: str) -> list[dict]:
    quick = tier == "quick"
    d = 1 if quick else 2
    out = []
    # `required` left out (= false) instead of written
    for spec, params, body in [
        ("3.0", [P("query", INT_MIN, False)], None),
        ("3.0", [P("header", INT, False)], None),
        ("3.0", [P("cookie", INT_MIN, False)], None),
        ("3.0", [], B(INT_MIN, False)),
        ("3.0", [P("header", STR, False)], None),
        ("3.0", [], B({}, False)),
        ("2.0", [P("query", INT_MIN, False)], None),
        ("2.0", [], B(INT_MIN, False)),
        ("3.1", [P("query", INT_MIN, False)], None),
    ]:
        out.append(spec_item(spec, params, body, "writing", "required_omitted", d=d, omit_required=True))
    # two media types, one of them accepts everything; both writing orders; both negatable
    j, t = "application/json", "text/json"
    for content in (
        [(j, {}), (t, INT_MIN)],
        [(t, INT_MIN), (j, {})],
        [(j, INT_MIN), (t, {})],
        [(j, INT_MIN), (t, {"type": "string", "maxLength": 1})],
        [(j, {}), (t, {"additionalProperties": True})],
    ):
        # all media types accept everything: an optional body, so that nothing at all can be violated
        required = not all(s in ({}, {"additionalProperties": True}) for _, s in content)
        out.append(spec_item("3.0", [], MB(content, required=required), "writing", "two_media_types", d=d))
    return out


def all_items(tier: str) -> list[dict]:
    return (entry_point_items(tier) + engine_items(tier) + multi_input_items(tier) + accept_all_items(tier)
            + writing_variant_items(tier))
