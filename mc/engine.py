"""Run the real Schemathesis engine in-process against a scripted API through the in-process HTTP seam."""

from __future__ import annotations

import copy
from dataclasses import dataclass, field
from typing import Any, Callable

from mc import httpseam


@dataclass
class Run:
    events: list = field(default_factory=list)
    exchanges: list = field(default_factory=list)
    error: BaseException | None = None  # exception that escaped the event stream itself

    def of_type(self, name: str) -> list:
        return [e for e in self.events if type(e).__name__ == name]


def make_config(
    *,
    phases: list[str] | None = None,
    workers: int = 1,
    max_examples: int = 5,
    seed: int | None = 1,
    max_failures: int | None = None,
    continue_on_failure: bool = False,
    unique_inputs: bool = False,
    checks: list | None = None,
    modes: list | None = None,
    headers: dict | None = None,
    auth: tuple | None = None,
    override: Any = None,
    stateful_step_count: int | None = None,
    generation: Any = None,
    checks_config: dict | None = None,
    derandomize: bool = True,
) -> Any:
    import hypothesis

    from schemathesis.checks import not_a_server_error
    from schemathesis.engine.config import EngineConfig, ExecutionConfig, NetworkConfig
    from schemathesis.engine.phases import PhaseName
    from schemathesis.generation import GenerationConfig, GenerationMode

    kw: dict[str, Any] = {"deadline": None, "database": None, "max_examples": max_examples, "derandomize": derandomize,
                          "suppress_health_check": list(hypothesis.HealthCheck)}
    if stateful_step_count is not None:
        kw["stateful_step_count"] = stateful_step_count
    settings = hypothesis.settings(**kw)
    if generation is None:
        generation = GenerationConfig(modes=modes or [GenerationMode.POSITIVE])
    phase_names = [PhaseName.from_str(p) for p in (phases or ["examples", "coverage", "fuzzing", "stateful"])]
    return EngineConfig(
        execution=ExecutionConfig(
            phases=phase_names,
            checks=checks if checks is not None else [not_a_server_error],
            hypothesis_settings=settings,
            generation=generation,
            max_failures=max_failures,
            unique_inputs=unique_inputs,
            continue_on_failure=continue_on_failure,
            seed=seed,
            workers_num=workers,
        ),
        network=NetworkConfig(headers=headers or {}, auth=auth),
        checks_config=checks_config or {},
        override=override,
    )


def load_schema(doc: dict, **configure: Any) -> Any:
    import schemathesis

    schema = schemathesis.openapi.from_dict(copy.deepcopy(doc))
    return schema.configure(base_url=httpseam.BASE_URL, **configure)


def run_engine(schema: Any, config: Any, handler: httpseam.Handler = httpseam.ok_handler, *,
               on_event: Callable[[Any, Any], None] | None = None, on_send: Callable | None = None) -> Run:
    """Execute the engine to the end and collect its events and the traffic it produced."""
    from schemathesis.engine import from_schema

    run = Run()
    with httpseam.installed(handler, on_send) as log:
        try:
            stream = from_schema(schema, config=config).execute()
            for event in stream:
                run.events.append(event)
                if on_event is not None:
                    on_event(event, stream)
        except BaseException as exc:  # noqa: BLE001 - observation, judged by the caller
            run.error = exc
        run.exchanges = list(log.exchanges)
    return run


def event_summary(event: Any) -> dict:
    out: dict[str, Any] = {"type": type(event).__name__}
    for attr in ("phase", "label", "status", "skip_reason"):
        if hasattr(event, attr):
            v = getattr(event, attr)
            v = getattr(v, "name", v)
            if hasattr(v, "value") and not isinstance(v, (str, int)):
                v = v.value
            out[attr] = getattr(v, "value", v) if not isinstance(v, (str, int, type(None))) else v
    return out
