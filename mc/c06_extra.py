"""C06, review round 2: enumerators for the dimensions the first version left out (pure data, JSON-able work items).

The documents are built and judged by props/c06.py; nothing here imports schemathesis or the oracle.

  multi   two and three parameters in ONE location (both writing orders, array + scalar, object + scalar, names that differ
          in letter case only, only-optional parameters), the same name in several locations, path templates with two
          variables in one segment (``/{a}-{b}``) and a variable used twice (``/{a}/x/{a}``); OpenAPI 3.0 and Swagger 2.0
  spell   the same parameter declared in the less common spellings: OpenAPI 3.1 document, parameter at path-item level,
          ``$ref`` to a shared parameter, ``$ref`` schema, ``nullable: true``, 3.1 ``type: [T, "null"]``, ``allOf: [T]``
  body2   request-body media types: parameters / letter case / ``+json`` suffix in the media type, two and three declared
          media types (both orders), wildcard media types, optional bodies (``required: false`` / not written)
  base2   base URLs with a port, with percent-escapes in the base path, a base URL given per call (``call(base_url=...)``)
          that must win over the configured one, OpenAPI 3.1 ``servers``
"""

from __future__ import annotations

from typing import Any, Iterator

HOST = "http://verif.local"


def P(loc: str, type_: str, name: str, **kw: Any) -> dict:
    return {"loc": loc, "type": type_, "name": name, **kw}


def _orders(params: list[dict], all_rotations: bool = False) -> Iterator[tuple[str, list[dict]]]:
    """Both writing orders of a parameter list (three parameters: also the rotation that puts the middle one first)."""
    yield "fwd", list(params)
    yield "rev", list(reversed(params))
    if len(params) > 2 and all_rotations:
        yield "rot", params[1:] + params[:1]


def multi_param_rows() -> Iterator[dict]:
    def row(spec: str, tag: str, template: str, params: list[dict], method: str = "get") -> Iterator[dict]:
        for order, ps in _orders(params, all_rotations=True):
            yield {"kind": "multi", "spec": spec, "tag": f"{tag}:{order}", "template": template, "method": method, "params": ps}

    # ---- OpenAPI 3.0, one location
    q = "query"
    yield from row("3.0", "query:scalar+scalar", "/t", [P(q, "string", "a"), P(q, "integer", "b")])
    yield from row("3.0", "query:array_csv+scalar", "/t", [P(q, "array_string", "a", style="form", explode=False), P(q, "string", "b")])
    yield from row("3.0", "query:array_exploded+scalar", "/t", [P(q, "array_string", "a"), P(q, "string", "b")])
    yield from row("3.0", "query:deepObject+scalar", "/t", [P(q, "object", "o", style="deepObject", explode=True), P(q, "string", "c")])
    yield from row("3.0", "query:object_csv+scalar", "/t", [P(q, "object", "o", explode=False), P(q, "boolean", "c")])
    yield from row("3.0", "query:object_exploded+scalar", "/t", [P(q, "object", "o", style="form", explode=True), P(q, "string", "c")])
    yield from row("3.0", "query:three", "/t", [P(q, "string", "s"), P(q, "array_string", "q", style="pipeDelimited", explode=False),
                                                  P(q, "object", "o", style="deepObject")])
    yield from row("3.0", "query:letter_case", "/t", [P(q, "string", "p"), P(q, "string", "P")])
    yield from row("3.0", "query:bracket_names", "/t", [P(q, "array_string", "ids[]"), P(q, "string", "a.b")])
    yield from row("3.0", "query:only_optional", "/t", [P(q, "string", "a", required=False),
                                                          P(q, "array_string", "b", explode=False, required=False)])
    h = "header"
    yield from row("3.0", "header:scalar+scalar", "/t", [P(h, "string", "X-A"), P(h, "integer", "X-B")])
    yield from row("3.0", "header:array+scalar", "/t", [P(h, "array_string", "X-A"), P(h, "string", "X-B")])
    yield from row("3.0", "header:object+scalar", "/t", [P(h, "object", "X-A", explode=True), P(h, "boolean", "X-B")])
    yield from row("3.0", "header:three", "/t", [P(h, "string", "x-a"), P(h, "array_integer", "X-B", explode=True),
                                                   P(h, "object", "X-C", explode=False)])
    yield from row("3.0", "header:only_optional", "/t", [P(h, "string", "X-A", required=False), P(h, "array_string", "X-B", required=False)])
    c = "cookie"
    yield from row("3.0", "cookie:scalar+scalar", "/t", [P(c, "string", "a"), P(c, "integer", "b")])
    yield from row("3.0", "cookie:array+scalar", "/t", [P(c, "array_string", "a", explode=False), P(c, "string", "b")])
    yield from row("3.0", "cookie:object+scalar", "/t", [P(c, "object", "o", explode=False), P(c, "boolean", "c")])
    yield from row("3.0", "cookie:letter_case", "/t", [P(c, "string", "p"), P(c, "string", "P")])
    yield from row("3.0", "cookie:three", "/t", [P(c, "string", "s"), P(c, "array_integer", "q", explode=False), P(c, "boolean", "c")])
    yield from row("3.0", "cookie:only_optional", "/t", [P(c, "string", "a", required=False), P(c, "integer", "b", required=False)])
    p = "path"
    yield from row("3.0", "path:scalar+scalar", "/t/{a}/{b}", [P(p, "string", "a"), P(p, "integer", "b")])
    yield from row("3.0", "path:array+label", "/t/{a}/{b}", [P(p, "array_string", "a"), P(p, "string", "b", style="label")])
    yield from row("3.0", "path:three", "/t/{a}/{b}/{c}", [P(p, "string", "a"), P(p, "array_string", "b", style="label", explode=True),
                                                             P(p, "object", "c", style="matrix", explode=True)])
    yield from row("3.0", "path:two_in_one_segment", "/t/{a}-{b}", [P(p, "string", "a"), P(p, "string", "b")])
    yield from row("3.0", "path:two_in_one_segment_root", "/{a}-{b}/{c}", [P(p, "string", "a"), P(p, "boolean", "b"), P(p, "string", "c")])
    for tag, type_, kw in (("string", "string", {}), ("label_array", "array_string", {"style": "label", "explode": True})):
        yield {"kind": "multi", "spec": "3.0", "tag": f"path:variable_twice:{tag}", "template": "/t/{a}/x/{a}", "method": "get",
               "params": [P(p, type_, "a", **kw)]}
    # ---- the same name in several locations
    yield from row("3.0", "same_name:all_locations", "/t/{p}", [P(p, "string", "p"), P(q, "string", "p"), P(h, "string", "p"), P(c, "string", "p")])
    yield from row("3.0", "same_name:typed", "/t/{p}", [P(q, "array_string", "p", explode=False), P(p, "integer", "p"), P(c, "boolean", "p"),
                                                          P(h, "array_integer", "p")])
    # ---- names that the output sanitiser knows (api_key, session, ...): asking the case for its curl command between two sends
    # must not change what is sent (round 2, "the same object used twice")
    yield {"kind": "multi", "spec": "3.0", "tag": "sensitive_names:query+cookie", "template": "/t", "method": "get",
           "params": [P(q, "string", "api_key"), P(c, "string", "session")]}
    yield {"kind": "multi", "spec": "3.0", "tag": "sensitive_names:header", "template": "/t", "method": "get",
           "params": [P(h, "string", "X-Api-Key"), P(h, "string", "X-B")]}
    # ---- Swagger 2.0
    yield from row("2.0", "query:scalar+array_pipes", "/t", [P(q, "string", "a"), P(q, "array_string", "b", cf="pipes")])
    yield from row("2.0", "query:array_multi+array_csv", "/t", [P(q, "array_string", "a", cf="multi"), P(q, "array_integer", "b", cf="csv")])
    yield from row("2.0", "header:array+scalar", "/t", [P(h, "array_string", "X-A", cf="csv"), P(h, "string", "X-B")])
    yield from row("2.0", "path:scalar+array", "/t/{a}/{b}", [P(p, "string", "a"), P(p, "array_string", "b", cf="pipes")])
    yield from row("2.0", "path:two_in_one_segment", "/t/{a}-{b}", [P(p, "string", "a"), P(p, "string", "b")])
    yield from row("2.0", "same_name:all_locations", "/t/{p}", [P(p, "string", "p"), P(q, "array_string", "p", cf="multi"), P(h, "integer", "p")])
    yield from row("2.0", "formData:three", "/t", [P("formData", "string", "a"), P("formData", "array_string", "b", cf="multi"),
                                                     P("formData", "boolean", "c")], method="post")


# rows in which the serializer has to act (arrays / objects), none of them a shape with a recorded finding
SPELL_ROWS = [
    P("path", "array_string", "p"),
    P("path", "array_string", "p", style="label", explode=True),
    P("query", "array_string", "p", style="form", explode=False),
    P("query", "array_string", "p", style="pipeDelimited"),
    P("query", "object", "p", style="deepObject"),
    P("query", "object", "p", explode=False),
    P("header", "array_string", "X-P"),
    P("header", "object", "X-P", explode=True),
    P("cookie", "array_string", "p", explode=False),
    P("cookie", "object", "p", explode=False),
]
SPELLINGS_30 = ["v31", "path_level", "ref_param", "ref_schema", "nullable", "type_list", "allOf"]
SPELLINGS_20 = ["path_level", "ref_param"]
SPELL_ROWS_20 = [
    P("path", "array_string", "p", cf="pipes"),
    P("query", "array_string", "p", cf="ssv"),
    P("query", "array_string", "p", cf="multi"),
    P("header", "array_string", "X-P", cf="csv"),
]


def spelling_rows() -> Iterator[dict]:
    for spelling in SPELLINGS_30:
        for pd in SPELL_ROWS:
            template = "/t/{p}" if pd["loc"] == "path" else "/t"
            yield {"kind": "multi", "spec": "3.0", "tag": f"spell:{spelling}", "template": template, "method": "get",
                   "params": [dict(pd, spelling=spelling)], "spelling": spelling}
    for spelling in SPELLINGS_20:
        for pd in SPELL_ROWS_20:
            template = "/t/{p}" if pd["loc"] == "path" else "/t"
            yield {"kind": "multi", "spec": "2.0", "tag": f"spell:{spelling}", "template": template, "method": "get",
                   "params": [dict(pd, spelling=spelling)], "spelling": spelling}


JSON_MT = "application/json"
FORM_MT = "application/x-www-form-urlencoded"
TEXT_MT = "text/plain"
MULTIPART_MT = "multipart/form-data"


def body_media_rows() -> Iterator[dict]:
    """``content``: [[media type, schema name]] in writing order; ``required``: True / False / None (= not written)."""

    def row(spec: str, tag: str, content: list, required: Any = True) -> dict:
        return {"kind": "body2", "spec": spec, "tag": tag, "content": content, "required": required}

    # one media type, written with parameters / other letter case / a structured-syntax suffix
    for mt, tname in (
        ("application/json; charset=utf-8", "object"), ("application/json;charset=UTF-8", "string"), ("Application/JSON", "object"),
        ("application/vnd.api+json", "object"), ("text/json", "array_string"),
        ("text/plain; charset=utf-8", "string"), ("Text/Plain", "string"),
        ("application/x-www-form-urlencoded; charset=utf-8", "form_object"), ("Application/X-WWW-Form-Urlencoded", "form_object"),
    ):
        yield row("3.0", f"spelling:{mt}", [[mt, tname]])
    # wildcards: any registered media type may be chosen; whichever it is, Content-Type and body have to agree with it
    for mt, tname in (("*/*", "form_object"), ("application/*", "form_object"), ("text/*", "string")):
        yield row("3.0", f"wildcard:{mt}", [[mt, tname]])
    # two and three declared media types, every writing order of two, three rotations of three
    pairs = [
        [[JSON_MT, "form_object"], [FORM_MT, "form_object"]],
        [[JSON_MT, "string"], [TEXT_MT, "string"]],
        [[FORM_MT, "form_object"], [TEXT_MT, "string"]],
        [[JSON_MT, "form_object"], [MULTIPART_MT, "form_object"]],
        [[FORM_MT, "form_object"], [MULTIPART_MT, "form_object"]],
        [[JSON_MT, "object"], ["application/json; charset=utf-8", "array_string"]],
    ]
    for content in pairs:
        for order, cs in _orders(content):
            yield row("3.0", "two:" + "+".join(c[0] for c in cs), cs)
    three = [[JSON_MT, "form_object"], [FORM_MT, "form_object"], [TEXT_MT, "string"]]
    for order, cs in _orders(three, all_rotations=True):
        yield row("3.0", "three:" + "+".join(c[0] for c in cs), cs)
    # optional bodies: `required: false` and `required` not written (the default is false)
    for required in (False, None):
        for mt, tname in ((JSON_MT, "object"), (JSON_MT, "string"), (FORM_MT, "form_object"), (TEXT_MT, "string"), (MULTIPART_MT, "form_object")):
            yield row("3.0", f"optional:{required}:{mt}", [[mt, tname]], required)
        yield row("3.0", f"optional:{required}:two", [[JSON_MT, "form_object"], [FORM_MT, "form_object"]], required)
    # Swagger 2.0: `consumes` lists, optional body parameter
    for cs in ([JSON_MT, TEXT_MT], [TEXT_MT, JSON_MT], ["application/json; charset=utf-8"]):
        yield row("2.0", "consumes:" + "+".join(cs), [[mt, "string"] for mt in cs])
    for cs in ([FORM_MT, MULTIPART_MT], [MULTIPART_MT, FORM_MT]):
        yield row("2.0", "consumes:" + "+".join(cs), [[mt, "form_object"] for mt in cs])
    for required in (False, None):
        yield row("2.0", f"optional:{required}:{JSON_MT}", [[JSON_MT, "object"]], required)
        yield row("2.0", f"optional:{required}:formData", [[FORM_MT, "form_object"]], required)


def base_extra_rows() -> Iterator[dict]:
    docs = [("path", "/t/{p}"), ("query", "/t"), ("none", "/")]
    for loc, template in docs:
        # a port; percent-escapes in the base path (a space, a reserved character: they are part of the configured base URL)
        for base, specs in ((HOST + ":8080", ("3.0", "2.0")), (HOST + ":8080/api/", ("3.0", "2.0")), (HOST + "/a%20b", ("3.0", "2.0")),
                            (HOST + "/a%2Fb/", ("3.0", "2.0")), (HOST + ":8080/a%2Fb/v1", ("3.0",))):
            for spec in specs:
                yield {"kind": "base", "spec": spec, "loc": loc, "template": template, "mode": "configured", "base": base,
                       "servers": "/other", "tag": "base2"}
        # the base URL given per call wins over the configured one and over `servers` / `basePath`
        for base in (HOST, HOST + "/api", HOST + ":8080/api/v1/"):
            for configured in (HOST + "/wrong", None):
                yield {"kind": "base", "spec": "3.0", "loc": loc, "template": template, "mode": "per_call", "base": base,
                       "configured": configured, "servers": "/other", "tag": "base2"}
        yield {"kind": "base", "spec": "2.0", "loc": loc, "template": template, "mode": "per_call", "base": HOST + "/api/",
               "configured": HOST + "/wrong/", "servers": "/other", "tag": "base2"}
        # OpenAPI 3.1 documents: `servers` with and without variables, a configured base URL
        for server in ("/api", HOST + "/api/v1/", {"url": "{server}/v1", "variables": {"server": {"default": HOST + "/api"}}}):
            yield {"kind": "base", "spec": "3.1", "loc": loc, "template": template, "mode": "servers", "base": None, "servers": server,
                   "tag": "base2"}
        yield {"kind": "base", "spec": "3.1", "loc": loc, "template": template, "mode": "configured", "base": HOST + "/api/",
               "servers": "/other", "tag": "base2"}
