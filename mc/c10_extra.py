"""C10, review round 2: enumerators for dimensions the first version of props/c10.py did not reach.

Plain data and string builders only - nothing here looks at schemathesis; the judging stays in props/c10.py with
oracles/rtexpr.py.  Every addition is inside what the property quantifies over ("all runtime expressions over the RFC grammar",
"all source request/response pairs", "all link definitions", "status matching for every code/wildcard/default combination").

 A1  parameter / header names written in ANOTHER LETTER CASE than the one declared / sent (HTTP header names are
     case-insensitive - RFC 7230 3.2, OpenAPI Parameter Object "in: header"; query and path names are case-sensitive).
 A2  JSON-pointer tokens that were missing from the token alphabet: array indices other than 0 (last element, exactly the
     length, two digits) and member names with characters that are expression syntax elsewhere ('.', '#', '$'), a space,
     a non-ASCII letter (all are `unescaped` characters of RFC 6901).
 A3  one more (request, response) context: falsy leaves directly under the response root (0, false, "", [], {}, null, 0.0 - the
     quick tier embeds depth-1 pointers only), a falsy whole request body, a query parameter sent as a list, header names
     stored in upper case.
 B1  statuses exactly at the limits of the NXX ranges (199, 299, 300, 400, 499) and the two other spellings of the same
     document: OpenAPI 3.1 and Swagger 2.0 (`x-links`).
 C2  a link parameter key `header.<name>` whose <name> is a declared header of the target in another letter case.
 C1  link values that are CONSTANTS, falsy ones included: `parameters` constants (0, "", text) and `requestBody` literals
     0 / false / "" / [] / {} and an expression denoting 0, each with merge_body on and off.
"""

from __future__ import annotations

import copy
from typing import Any

# ---------------------------------------------------------------------------------------------------------------- A1
# declared / sent names are `id` and `X-Id` (props/c10.py NAMES); these differ from them in letter case only
NAME_CASE_VARIANTS = ["x-id", "X-ID", "ID"]
REGEX_FOR_VARIANTS = ["", "#regex:(\\d+)"]


def name_case_strings() -> list[str]:
    out = []
    for side in ("request", "response"):
        for loc in ("header", "query", "path"):
            for name in NAME_CASE_VARIANTS:
                for rx in REGEX_FOR_VARIANTS:
                    e = f"${side}.{loc}.{name}{rx}"
                    out.append(e)
                    if not rx:
                        out.append("p_{" + e + "}_s")
    return out


# ---------------------------------------------------------------------------------------------------------------- A2
EXTRA_KEYS = ["a b", "é", "a.b", "a#b", "a$b"]
EXTRA_PTR_TOKENS = ["1", "2", "3", "10", "11"] + EXTRA_KEYS  # lists of length 2, 3 and 11 exist in the contexts


def pointer_extra_strings() -> list[str]:
    out = []
    for side in ("request", "response"):
        for t in EXTRA_PTR_TOKENS:
            for ptr in (f"/{t}", f"/a/{t}", f"/x/{t}", f"/{t}/0", f"/{t}/1", f"/0/{t}", f"/1/{t}", f"/a/0/{t}"):
                e = f"${side}.body#{ptr}"
                out.append(e)
            for ptr in (f"/{t}", f"/a/{t}", f"/1/{t}"):
                out.append("p_{$" + f"{side}.body#{ptr}" + "}_s")
        out.append("{$" + f"{side}.body#/a/1" + "}-{$" + f"{side}.body#/a/2" + "}")
    return out


# ---------------------------------------------------------------------------------------------------------------- A3
def extra_contexts(base_url: str) -> list[dict]:
    return [
        {  # 6: falsy leaves directly under the response root, falsy whole request body, list-valued query, upper-case header names
            "name": "falsy_response_list_query_upper_headers",
            "path": {"id": "p", "X-Id": "u"}, "query": {"id": ["q1", "q2"]}, "req_headers": {"X-ID": "upper-req-21", "ID": "upper-id-22"},
            "req_body": 0, "status": 299,
            "resp_headers": [("X-ID", "upper-resp-23"), ("ID", "")],
            "resp_body": {"a": 0, "a/b": False, "a~b": "", "a~1b": [], "0": {}, "": None, "x}": 0.0, "x": [0, 1, 2, 3, 4, 5, 6, 7, 8, 9, 10], "01": [[]], "-1": [False],
                          "-": [""], "b": "nonfalsy", "a b": 0, "é": False, "a.b": "", "a#b": [], "a$b": {}},
            "url": base_url + "/src/p/u?id=q1&id=q2",
        },
    ]


# ---------------------------------------------------------------------------------------------------------------- B1
EXTRA_STATUSES = [199, 299, 300, 400, 499]
SPECS = ["3.0.3", "3.1.0", "2.0"]


def b_document(keys: list, link_keys: list, spec: str) -> dict:
    """The document of part (b) in the spelling of `spec` (same operations, same keys in the same order, same links)."""
    field = "x-links" if spec == "2.0" else "links"
    responses: dict[Any, dict] = {}
    for k in keys:
        responses[k] = {"description": "r"}
    for n, k in enumerate(link_keys):
        responses[k][field] = {f"LNK{n}": {"operationId": "t", "parameters": {"id": "$response.body#/id"}}}
    if spec == "2.0":
        return {
            "swagger": "2.0", "info": {"title": "c10b", "version": "1"}, "consumes": ["application/json"], "produces": ["application/json"],
            "paths": {
                "/s": {"post": {"operationId": "s", "parameters": [{"name": "body", "in": "body", "required": True, "schema": {"type": "object"}}],
                                "responses": responses}},
                "/t/{id}": {"get": {"operationId": "t", "parameters": [{"name": "id", "in": "path", "required": True, "type": "integer"}],
                                    "responses": {"200": {"description": "ok"}}}},
            },
        }
    return {
        "openapi": spec, "info": {"title": "c10b", "version": "1"},
        "paths": {
            "/s": {"post": {"operationId": "s", "requestBody": {"required": True, "content": {"application/json": {"schema": {"type": "object"}}}},
                            "responses": responses}},
            "/t/{id}": {"get": {"operationId": "t", "parameters": [{"name": "id", "in": "path", "required": True, "schema": {"type": "integer"}}],
                                "responses": {"200": {"description": "ok"}}}},
        },
    }


# ---------------------------------------------------------------------------------------------------------------- C1
def _link(target: str, parameters: dict, body: Any = "$NONE", merge: bool | None = None) -> dict:
    out: dict[str, Any] = {"operationId": target, "parameters": copy.deepcopy(parameters)}
    if not (isinstance(body, str) and body == "$NONE"):
        out["requestBody"] = copy.deepcopy(body)
    if merge is not None:
        out["x-schemathesis"] = {"merge_body": merge}
    return out


_ID = {"id": "$response.body#/id"}


def _body_pair(body: Any) -> dict:
    # the same value under two links: merge_body off (L) and on (M, the default written out: lesson "neutral value")
    return {"links": {"201": {"L": _link("update", _ID, body, merge=False), "M": _link("update", _ID, body, merge=True)}}}


EXTRA_SHAPES: dict[str, dict] = {
    # constants as parameter values ("constant or expression"): falsy number, empty string, plain text; qualified and bare names
    "constants_qualified": {"links": {"201": {"L": _link("read", {"path.id": 0, "query.q": "", "query.id": "k", "header.X-Id": "h",
                                                                  "cookie.c": "0"})}}},
    "constants_bare": {"links": {"201": {"L": _link("peek", {"id": 0, "q": ""}), "M": _link("peek", {"id": 12, "q": "c"})}}},
    "body_zero": _body_pair(0),
    "body_false": _body_pair(False),
    "body_empty_string": _body_pair(""),
    "body_empty_list": _body_pair([]),
    "body_empty_object": _body_pair({}),
    "body_expr_scalar": _body_pair("$response.body#/id"),  # 0 after response 4, 7 after response 0
    # C2: a header of the target (declared `X-Id`) named in another letter case by the link: the same header (RFC 7230 3.2)
    "header_key_case": {"links": {"201": {"L": _link("read", {"path.id": "$response.body#/id", "header.x-id": "$response.header.X-Id"}),
                                          "M": _link("read", {"path.id": "$response.body#/id", "header.X-ID": "k"})}}},
}
# scripted responses for the extra shapes: 0 = 201 with id 7, 4 = 201 with id 0 / falsy leaves (see RESPONSES in props/c10.py)
EXTRA_SCRIPTS = [[0, 0], [4, 0], [0, 4]]
